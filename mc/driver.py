"""Common driver: build, deadline, evidence, interface lines."""
import os, sys, time

from . import build, evidence, findings
from . import run as runner

DEFAULT_DEADLINE = {"quick": 420.0, "thorough": 3000.0}


class Ctx:
    def __init__(self, pid, tier, deadline_s):
        self.pid = pid
        self.tier = tier
        self.t0 = time.time()
        self.deadline = self.t0 + deadline_s
        self.seed = runner.SEED
        self.rep = findings.Reporter(pid)
        self.cut = False          # a bound was cut by the deadline
        self.notes = []

    def time_left(self):
        return self.deadline - time.time()

    def expired(self):
        if time.time() > self.deadline:
            self.cut = True
            return True
        return False

    def log(self, *a):
        print("[%s %6.1fs]" % (self.pid, time.time() - self.t0), *a, flush=True)


def run_check(pid, mod, tier, deadline_s=None):
    if deadline_s is None:
        deadline_s = float(os.environ.get("VERIF_DEADLINE_S") or DEFAULT_DEADLINE[tier])
    ctx = Ctx(pid, tier, deadline_s)
    for fl in getattr(mod, "FLAVOURS", ("hooks",)):
        build.build(fl)
    res = mod.check(ctx)      # -> dict(level, coverage, assumptions, extra)
    cov = res["coverage"]
    cov.setdefault("exhaustive", not ctx.cut)
    if ctx.cut:
        cov["exhaustive"] = False
        cov["deadline_cut"] = True
    cov["known_findings_seen"] = dict(ctx.rep.known_seen)
    wall = time.time() - ctx.t0
    evidence.write(pid, tier, ctx.seed, res["level"], cov, wall, len(ctx.rep.new),
                   res.get("assumptions", ()), res.get("extra"))
    rc = ctx.rep.finish()
    ctx.log("done: evaluations=%s distinct_nontrivial=%s exhaustive=%s violations(new)=%d known=%d wall=%.1fs" % (
        cov.get("evaluations"), cov.get("distinct_nontrivial"), cov.get("exhaustive"),
        len(ctx.rep.new), sum(ctx.rep.known_seen.values()), wall))
    return rc


run = run_check
