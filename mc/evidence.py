"""evidence/<id>.json writer; validated against the schema before writing."""
import json, os, time

VERIF = os.path.dirname(os.path.dirname(os.path.abspath(__file__)))
SCHEMA = "/root/.vp/EVIDENCE.schema.json"


def _validate(doc):
    try:
        import jsonschema
    except ImportError:
        jsonschema = None
    if jsonschema and os.path.exists(SCHEMA):
        jsonschema.validate(doc, json.load(open(SCHEMA)))
        return
    # minimal built-in validation (same required keys and the types the schema fixes for named coverage keys)
    types = {"evaluations": int, "distinct_nontrivial": int, "rule": str, "samples": list, "states": int, "transitions": int,
             "traces_validated_against_impl": int, "obligations": int, "discharged": int, "checker_cmd": str, "trusted_base": list,
             "programs": int, "disagreements_checked": int, "explanation": str, "exhaustive": bool}
    for k, t in types.items():
        if k in doc.get("coverage", {}):
            v = doc["coverage"][k]
            assert isinstance(v, t) and not (t is int and isinstance(v, bool)), "coverage.%s must be %s" % (k, t.__name__)
    for k in ("property_id", "tier", "seed", "level", "coverage", "wall_s"):
        assert k in doc, k
    assert doc["tier"] in ("quick", "thorough")
    c = doc["coverage"]
    if doc["level"] in ("exploration", "fault_enumeration"):
        assert c["evaluations"] >= 1 and c["distinct_nontrivial"] >= 2 and c["samples"] and "rule" in c
    if doc["level"] == "model_checking":
        if all(k in c for k in ("states", "transitions", "traces_validated_against_impl", "samples")):
            assert c["states"] >= 1 and c["transitions"] >= 1 and c["samples"]
        else:
            assert c["evaluations"] >= 1 and c["distinct_nontrivial"] >= 2


def _clean(x):
    if isinstance(x, bytes):
        return x.decode("latin-1")
    if isinstance(x, dict):
        return {str(k): _clean(v) for k, v in x.items()}
    if isinstance(x, (list, tuple, set, frozenset)):
        return [_clean(v) for v in x]
    return x


def write(pid, tier, seed, level, coverage, wall_s, violations, assumptions=(), extra=None):
    doc = {
        "property_id": pid, "tier": tier, "seed": int(seed), "level": level,
        "coverage": _clean(coverage), "wall_s": round(float(wall_s), 3),
        "violations": int(violations), "assumptions": list(assumptions),
    }
    if extra:
        doc.update(_clean(extra))
    _validate(doc)
    os.makedirs(os.path.join(VERIF, "evidence"), exist_ok=True)
    p = os.path.join(VERIF, "evidence", pid + ".json")
    tmp = p + ".tmp"
    with open(tmp, "w") as f:
        json.dump(doc, f, indent=1, sort_keys=True)
        f.write("\n")
    os.replace(tmp, p)
    return p
