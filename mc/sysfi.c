/*
 * sysfi - system-call fault / crash injector (ptrace, x86_64 Linux).
 *
 *   sysfi --dir DIR --trace OUT [--act K:KIND[:ARG]]... -- prog args...
 *
 * Every system call of the traced program that refers to a path inside DIR
 * (by path argument, or by a file descriptor that /proc/<pid>/fd resolves to a
 * path inside DIR) is a *relevant* call and gets an ordinal 0,1,2,...
 * Each relevant call is appended to OUT as
 *     <ordinal>\t<name>\t<path>\t<result or action>
 * Actions (at most 4), applied when the ordinal is reached:
 *     K:kill          SIGKILL at syscall entry (the call does not happen)
 *     K:errno:E       the call is skipped and returns -E
 *     K:short:N       (write) count is reduced to N, the call really happens and returns N
 *     K:killshort:N   (write) count is reduced to N, call happens, SIGKILL at syscall exit
 *     K:killafter     the call happens, SIGKILL at its syscall-exit stop
 * Exit status: the child's; 128+sig if it died from a signal (137 for our SIGKILL);
 * 125 for an internal error of sysfi.
 */
#define _GNU_SOURCE
#include <errno.h>
#include <fcntl.h>
#include <limits.h>
#include <signal.h>
#include <stdio.h>
#include <stdlib.h>
#include <string.h>
#include <sys/ptrace.h>
#include <sys/syscall.h>
#include <sys/types.h>
#include <sys/uio.h>
#include <sys/user.h>
#include <sys/wait.h>
#include <unistd.h>

struct act { long k; char kind[16]; long arg; int used; };
static struct act acts[8];
static int nacts;
static const char *dir;
static size_t dirlen;
static FILE *trace;

static void die(const char *m) { perror(m); exit(125); }

/* which argument is a path (1-based), which is a dirfd (1-based, 0 = none), which is fd */
struct sc { long nr; const char *name; int patharg; int dirfdarg; int fdarg; int patharg2; int dirfdarg2; };
static const struct sc table[] = {
   { SYS_open, "open", 1, 0, 0, 0, 0 },
   { SYS_openat, "openat", 2, 1, 0, 0, 0 },
   { SYS_creat, "creat", 1, 0, 0, 0, 0 },
   { SYS_read, "read", 0, 0, 1, 0, 0 },
   { SYS_pread64, "pread64", 0, 0, 1, 0, 0 },
   { SYS_write, "write", 0, 0, 1, 0, 0 },
   { SYS_pwrite64, "pwrite64", 0, 0, 1, 0, 0 },
   { SYS_writev, "writev", 0, 0, 1, 0, 0 },
   { SYS_close, "close", 0, 0, 1, 0, 0 },
   { SYS_fsync, "fsync", 0, 0, 1, 0, 0 },
   { SYS_fdatasync, "fdatasync", 0, 0, 1, 0, 0 },
   { SYS_ftruncate, "ftruncate", 0, 0, 1, 0, 0 },
   { SYS_fstat, "fstat", 0, 0, 1, 0, 0 },
   { SYS_lseek, "lseek", 0, 0, 1, 0, 0 },
   { SYS_fchmod, "fchmod", 0, 0, 1, 0, 0 },
   { SYS_stat, "stat", 1, 0, 0, 0, 0 },
   { SYS_lstat, "lstat", 1, 0, 0, 0, 0 },
   { SYS_newfstatat, "newfstatat", 2, 1, 0, 0, 0 },
#ifdef SYS_statx
   { SYS_statx, "statx", 2, 1, 0, 0, 0 },
#endif
   { SYS_access, "access", 1, 0, 0, 0, 0 },
   { SYS_faccessat, "faccessat", 2, 1, 0, 0, 0 },
#ifdef SYS_faccessat2
   { SYS_faccessat2, "faccessat2", 2, 1, 0, 0, 0 },
#endif
   { SYS_rename, "rename", 1, 0, 0, 2, 0 },
   { SYS_renameat, "renameat", 2, 1, 0, 4, 3 },
#ifdef SYS_renameat2
   { SYS_renameat2, "renameat2", 2, 1, 0, 4, 3 },
#endif
   { SYS_unlink, "unlink", 1, 0, 0, 0, 0 },
   { SYS_unlinkat, "unlinkat", 2, 1, 0, 0, 0 },
   { SYS_mkdir, "mkdir", 1, 0, 0, 0, 0 },
   { SYS_mkdirat, "mkdirat", 2, 1, 0, 0, 0 },
   { SYS_rmdir, "rmdir", 1, 0, 0, 0, 0 },
   { SYS_chmod, "chmod", 1, 0, 0, 0, 0 },
   { SYS_utime, "utime", 1, 0, 0, 0, 0 },
   { SYS_utimes, "utimes", 1, 0, 0, 0, 0 },
   { SYS_utimensat, "utimensat", 2, 1, 0, 0, 0 },
   { SYS_futimesat, "futimesat", 2, 1, 0, 0, 0 },
   { SYS_readlink, "readlink", 1, 0, 0, 0, 0 },
   { SYS_truncate, "truncate", 1, 0, 0, 0, 0 },
   { SYS_link, "link", 1, 0, 0, 2, 0 },
   { SYS_symlink, "symlink", 2, 0, 0, 0, 0 },
};

static unsigned long long argn(const struct user_regs_struct *r, int n)
{
   switch (n) {
   case 1: return r->rdi; case 2: return r->rsi; case 3: return r->rdx;
   case 4: return r->r10; case 5: return r->r8;  case 6: return r->r9;
   }
   return 0;
}

static int read_str(pid_t pid, unsigned long long addr, char *buf, size_t n)
{
   size_t i = 0;
   while (i + 1 < n) {
      errno = 0;
      long w = ptrace(PTRACE_PEEKDATA, pid, (void *)(addr + i), 0);
      if (errno) { buf[i] = 0; return -1; }
      for (size_t j = 0; j < sizeof(long) && i + 1 < n; j++, i++) {
         buf[i] = ((char *)&w)[j];
         if (!buf[i]) return 0;
      }
   }
   buf[i] = 0;
   return 0;
}

static int in_dir(const char *p)
{
   return strncmp(p, dir, dirlen) == 0 && (p[dirlen] == '/' || p[dirlen] == 0);
}

/* resolve path argument to an absolute path string; returns 1 if inside DIR */
static int resolve_path(pid_t pid, unsigned long long addr, long dirfd, char *out, size_t n)
{
   char raw[PATH_MAX], lnk[64], base[PATH_MAX];
   if (read_str(pid, addr, raw, sizeof raw) < 0) { snprintf(out, n, "?"); return 0; }
   if (raw[0] == '/') { snprintf(out, n, "%s", raw); return in_dir(out); }
   if (dirfd == AT_FDCWD || dirfd == 0x7fffffff) snprintf(lnk, sizeof lnk, "/proc/%d/cwd", pid);
   else snprintf(lnk, sizeof lnk, "/proc/%d/fd/%ld", pid, dirfd);
   ssize_t l = readlink(lnk, base, sizeof base - 1);
   if (l < 0) { snprintf(out, n, "%s", raw); return 0; }
   base[l] = 0;
   snprintf(out, n, "%s/%s", base, raw);
   return in_dir(out);
}

static int resolve_fd(pid_t pid, long fd, char *out, size_t n)
{
   char lnk[64];
   snprintf(lnk, sizeof lnk, "/proc/%d/fd/%ld", pid, fd);
   ssize_t l = readlink(lnk, out, n - 1);
   if (l < 0) { snprintf(out, n, "fd%ld", fd); return 0; }
   out[l] = 0;
   /* a deleted file shows as "path (deleted)" - still inside DIR */
   return in_dir(out);
}

int main(int argc, char **argv)
{
   int i = 1;
   const char *tracepath = NULL;
   for (; i < argc; i++) {
      if (!strcmp(argv[i], "--")) { i++; break; }
      else if (!strcmp(argv[i], "--dir") && i + 1 < argc) dir = argv[++i];
      else if (!strcmp(argv[i], "--trace") && i + 1 < argc) tracepath = argv[++i];
      else if (!strcmp(argv[i], "--act") && i + 1 < argc) {
         if (nacts >= 8) { fprintf(stderr, "sysfi: too many actions\n"); return 125; }
         struct act *a = &acts[nacts++];
         char *s = argv[++i];
         a->k = strtol(s, &s, 10);
         if (*s != ':') { fprintf(stderr, "sysfi: bad action\n"); return 125; }
         s++;
         size_t l = strcspn(s, ":");
         if (l >= sizeof a->kind) return 125;
         memcpy(a->kind, s, l); a->kind[l] = 0;
         a->arg = s[l] == ':' ? strtol(s + l + 1, NULL, 10) : 0;
         a->used = 0;
      } else { fprintf(stderr, "sysfi: bad argument %s\n", argv[i]); return 125; }
   }
   if (!dir || i >= argc) { fprintf(stderr, "usage: sysfi --dir DIR [--trace OUT] [--act K:KIND[:ARG]] -- prog args\n"); return 125; }
   dirlen = strlen(dir);
   if (tracepath) { trace = fopen(tracepath, "w"); if (!trace) die("trace"); }

   pid_t pid = fork();
   if (pid < 0) die("fork");
   if (pid == 0) {
      ptrace(PTRACE_TRACEME, 0, 0, 0);
      raise(SIGSTOP);
      execvp(argv[i], argv + i);
      _exit(127);
   }
   int st;
   if (waitpid(pid, &st, 0) < 0) die("waitpid");
   if (ptrace(PTRACE_SETOPTIONS, pid, 0, PTRACE_O_TRACESYSGOOD | PTRACE_O_EXITKILL) < 0) die("setoptions");

   long ord = 0;
   int in_call = 0;           /* 0: next stop is entry */
   struct act *pending = NULL;  /* action to finish at exit stop */
   int relevant = 0;
   char path[PATH_MAX + 32], path2[PATH_MAX];
   const char *name = "";
   int sig = 0;

   for (;;) {
      if (ptrace(PTRACE_SYSCALL, pid, 0, sig) < 0) die("ptrace syscall");
      sig = 0;
      if (waitpid(pid, &st, 0) < 0) die("waitpid");
      if (WIFEXITED(st)) { if (trace) fclose(trace); return WEXITSTATUS(st); }
      if (WIFSIGNALED(st)) { if (trace) fclose(trace); return 128 + WTERMSIG(st); }
      if (!WIFSTOPPED(st)) continue;
      int ss = WSTOPSIG(st);
      if (ss != (SIGTRAP | 0x80)) {
         if (ss != SIGTRAP && ss != SIGSTOP) sig = ss;   /* deliver real signals */
         continue;
      }
      struct user_regs_struct r;
      if (ptrace(PTRACE_GETREGS, pid, 0, &r) < 0) die("getregs");
      if (!in_call) {
         in_call = 1; relevant = 0; pending = NULL;
         long nr = (long)r.orig_rax;
         const struct sc *s = NULL;
         for (size_t t = 0; t < sizeof table / sizeof table[0]; t++)
            if (table[t].nr == nr) { s = &table[t]; break; }
         if (!s) continue;
         name = s->name;
         if (s->patharg) {
            long dfd = s->dirfdarg ? (long)(int)argn(&r, s->dirfdarg) : AT_FDCWD;
            relevant = resolve_path(pid, argn(&r, s->patharg), dfd, path, PATH_MAX);
            if (s->patharg2) {
               long dfd2 = s->dirfdarg2 ? (long)(int)argn(&r, s->dirfdarg2) : AT_FDCWD;
               int r2 = resolve_path(pid, argn(&r, s->patharg2), dfd2, path2, sizeof path2);
               relevant = relevant || r2;
               strncat(path, " -> ", sizeof path - strlen(path) - 1);
               strncat(path, path2, sizeof path - strlen(path) - 1);
            }
         } else if (s->fdarg) {
            relevant = resolve_fd(pid, (long)(int)argn(&r, s->fdarg), path, PATH_MAX);
         }
         if (!relevant) continue;
         struct act *a = NULL;
         for (int t = 0; t < nacts; t++) if (acts[t].k == ord && !acts[t].used) { a = &acts[t]; break; }
         if (a) {
            a->used = 1;
            if (!strcmp(a->kind, "kill")) {
               if (trace) { fprintf(trace, "%ld\t%s\t%s\tKILLED-BEFORE\n", ord, name, path); fclose(trace); }
               kill(pid, SIGKILL);
               waitpid(pid, &st, 0);
               return 137;
            } else if (!strcmp(a->kind, "errno")) {
               r.orig_rax = (unsigned long long)-1;
               if (ptrace(PTRACE_SETREGS, pid, 0, &r) < 0) die("setregs");
               pending = a;
            } else if (!strcmp(a->kind, "short") || !strcmp(a->kind, "killshort")) {
               if ((long)r.rdx > a->arg) {
                  r.rdx = (unsigned long long)a->arg;
                  if (ptrace(PTRACE_SETREGS, pid, 0, &r) < 0) die("setregs");
               }
               pending = a;
            } else if (!strcmp(a->kind, "killafter")) {
               pending = a;
            } else { fprintf(stderr, "sysfi: unknown action kind %s\n", a->kind); kill(pid, SIGKILL); return 125; }
         }
      } else {
         in_call = 0;
         if (!relevant) continue;
         long long ret = (long long)r.rax;
         if (pending && !strcmp(pending->kind, "errno")) {
            r.rax = (unsigned long long)(-(long long)pending->arg);
            if (ptrace(PTRACE_SETREGS, pid, 0, &r) < 0) die("setregs");
            if (trace) fprintf(trace, "%ld\t%s\t%s\tINJECT-ERRNO-%ld\n", ord, name, path, pending->arg);
         } else if (pending && (!strcmp(pending->kind, "killshort") || !strcmp(pending->kind, "killafter"))) {
            if (trace) { fprintf(trace, "%ld\t%s\t%s\t%lld KILLED-AFTER\n", ord, name, path, ret); fclose(trace); }
            kill(pid, SIGKILL);
            waitpid(pid, &st, 0);
            return 137;
         } else if (pending) {
            if (trace) fprintf(trace, "%ld\t%s\t%s\t%lld SHORT\n", ord, name, path, ret);
         } else {
            if (trace) fprintf(trace, "%ld\t%s\t%s\t%lld\n", ord, name, path, ret);
         }
         if (trace) fflush(trace);
         ord++;
      }
   }
}
