"""hooks.baseline_off_cmd: build /repo's working tree with the guard OFF and run
the repository's own ctest suite against that build (junit written to
build/off/junit.xml).  Exit status = ctest's."""
import os, subprocess, sys
sys.path.insert(0, os.path.dirname(os.path.dirname(os.path.abspath(__file__))))
from mc import build

def main():
    build.build("off", quiet=False)
    bdir = build.build_dir("off")
    r = subprocess.run(["ctest", "--test-dir", bdir, "-j16", "--timeout", "900",
                        "--output-junit", os.path.join(bdir, "junit.xml")],
                       stdout=subprocess.PIPE, stderr=subprocess.STDOUT, text=True)
    tail = r.stdout.strip().splitlines()[-15:]
    print("\n".join(tail))
    return r.returncode

if __name__ == "__main__":
    sys.exit(main())
