"""Known findings / replay files.

/verif/known_findings.txt (committed, never written at run time), one per line:

  finding: property=<id> match=<json object> :: <what fails>
  fixed: property=<id> <commit> <what failed>

A violation is described by a *witness* (flat dict of strings/numbers).  It is
a known finding iff some 'finding:' line of the same property has a match
object all of whose keys equal the witness's values.  Matching is deliberately
narrow.  'fixed:' lines suppress nothing.
"""
import hashlib, json, os, re, shlex, stat

VERIF = os.path.dirname(os.path.dirname(os.path.abspath(__file__)))
KF = os.path.join(VERIF, "known_findings.txt")


def load():
    out = []
    if not os.path.exists(KF):
        return out
    for ln in open(KF, encoding="utf-8"):
        ln = ln.rstrip("\n")
        m = re.match(r"^finding: property=(C\d+) match=(\{.*?\}) :: (.*)$", ln)
        if m:
            out.append({"property": m.group(1), "match": json.loads(m.group(2)), "what": m.group(3), "seen": 0})
    return out


def match(known, pid, witness):
    for k in known:
        if k["property"] != pid:
            continue
        if all(str(witness.get(f)) == str(v) for f, v in k["match"].items()):
            return k
    return None


def _b(x):
    return x if isinstance(x, bytes) else str(x).encode("utf-8", "surrogateescape")


def write_replay(pid, witness, files, argv=None, note=""):
    """files: name -> bytes.  Returns the replay directory."""
    h = hashlib.sha1(json.dumps(witness, sort_keys=True, default=str).encode()).hexdigest()[:12]
    d = os.path.join(VERIF, "replays", "%s-%s" % (pid, h))
    os.makedirs(d, exist_ok=True)
    for name, data in files.items():
        with open(os.path.join(d, name), "wb") as f:
            f.write(_b(data))
    with open(os.path.join(d, "witness.json"), "w") as f:
        json.dump({"property": pid, "witness": witness, "note": note, "argv": argv}, f, indent=1, default=str)
        f.write("\n")
    if argv:
        sh = os.path.join(d, "replay.sh")
        with open(sh, "w") as f:
            f.write("#!/bin/sh\n# re-executes the failing run without the explorer\ncd \"$(dirname \"$0\")\"\n")
            f.write(" ".join(shlex.quote(a) for a in argv) + "\n")
        os.chmod(sh, os.stat(sh).st_mode | stat.S_IXUSR | stat.S_IXGRP | stat.S_IXOTH)
    return d


class Reporter:
    """Collects violations of one check run, separates known from new ones,
    prints the interface lines and gives the exit status."""

    def __init__(self, pid):
        self.pid = pid
        self.known = load()
        self.new = {}          # witness key -> replay path
        self.known_seen = {}   # what -> count
        self.total = 0

    def violation(self, witness, files=None, argv=None, note=""):
        self.total += 1
        k = match(self.known, self.pid, witness)
        if k is not None:
            self.known_seen[k["what"]] = self.known_seen.get(k["what"], 0) + 1
            return False
        key = json.dumps(witness, sort_keys=True, default=str)
        if key not in self.new and os.environ.get("VERIF_WITNESS_LOG"):
            # development aid for bulk triage: every distinct new witness, also beyond the 200 replay directories
            with open(os.environ["VERIF_WITNESS_LOG"], "a") as f:
                f.write(key + "\n")
        if key not in self.new:
            if len(self.new) < 200:
                self.new[key] = write_replay(self.pid, witness, files or {}, argv, note)
            else:
                self.new[key] = self.new[next(iter(self.new))]
        return True

    def finish(self):
        for what, n in sorted(self.known_seen.items()):
            print("KNOWN-FINDING: property=%s %s (seen %d times)" % (self.pid, what, n))
        seen = set()
        for key, path in self.new.items():
            if path in seen:
                continue
            seen.add(path)
            print("VIOLATION property=%s replay=%s" % (self.pid, path))
        return 1 if self.new else 0
