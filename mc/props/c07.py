"""C07  Disabled regions are copied through untouched.

Enumerated: language skeletons (+ small statement programs) x region position (before EVERY line, and at the end of the file,
terminated and unterminated) x 14 region contents (tidy code, mis-indented code, text that is not valid in the language,
')))', lone '{', lone '}', tabs and trailing blanks, whitespace-only lines, blank-line runs, non-ASCII bytes, unterminated
'/*', unterminated '"', a preprocessor line, marker look-alikes) x 6 marker kinds (block / line comment default markers,
custom markers, regex markers, #pragma asm, #asm) x {LF, CRLF} x {defaults, curated profiles with their mod_ options,
kitchen-sink profiles}; plus every single deviation of every option the run reads (mod_*, blank-line, alignment ... included).

Oracle: (1) fidelity - the lines between the markers in the output equal those of the input, in order and number, non-blank
lines byte for byte (whitespace-only lines may be emptied; the terminator is normalised);
(2) opacity - for fixed program, position, marker and configuration the output outside the region is the same for all contents.
"""
import os, re

from .. import bee, configs, registry, run
from ..universe import cgen, skel
from . import c06

LEVEL = "model_checking"

CONTENTS = [
    ("tidy", ["int zz = 1;"]),
    ("misindented", ["      int   zz=1 ;", "  if(zz){zz++ ;}"]),
    ("not-code", ["this is %% not ~~ code at all", "  &&& |||"]),
    ("parens", [")))"]),
    ("lone-open-brace", ["{"]),
    ("lone-close-brace", ["}"]),
    ("tabs-trailing", ["\tint\tzz = 1;  \t", "  x  "]),
    ("ws-only-lines", ["a = 1;", "   ", "\t", "b = 2;"]),
    ("blank-runs", ["a = 1;", "", "", "", "b = 2;", ""]),
    ("non-ascii", ["caf\xe9 = \xff\xfe;"]),
    ("unterminated-comment", ["x = 1; /* never closed"]),
    ("unterminated-string", ['s = "never closed;']),
    ("preproc", ["#define   ZZ(a)   (a)", "#if 0", "#endif"]),
    ("lookalikes", ["/* *INDENT-ON */", "// INDENT-ON*", "/* * INDENT-ON * */", "#pragma endas"]),
    ("foreign-end-marker", ["x = 1;", "#pragma endasmx", "y = 2;"]),
    ("long-line", ["x = " + "+".join(["a"] * 80) + ";"]),
    ("case-label", ["case 3:", "default:", "public:"]),
    ("col1-comments", ["// line comment with trailing blanks   ", "/* block */  x  =  1;", "  y=2; // tail  "]),
    ("backslash-cont", ["#define X(a)   \\", "   (a)   \\", "   + 1", "z  =  3 \\", "  ;"]),
]
QUICK_CONTENTS = ("tidy", "misindented", "not-code", "lone-close-brace", "tabs-trailing", "ws-only-lines", "blank-runs", "unterminated-string", "preproc",
                  "col1-comments", "backslash-cont")

MARKERS = {
    "block": ("/* *INDENT-OFF* */", "/* *INDENT-ON* */", {}, " *INDENT-OFF*", " *INDENT-ON*"),
    "line": ("// *INDENT-OFF*", "// *INDENT-ON*", {}, " *INDENT-OFF*", " *INDENT-ON*"),
    "custom": ("/* BEGIN-RAW */", "/* END-RAW */", {"disable_processing_cmt": " BEGIN-RAW", "enable_processing_cmt": " END-RAW"}, " BEGIN-RAW", " END-RAW"),
    "regex": ("/* RAW-17-BEGIN */", "/* RAW-17-END */", {"disable_processing_cmt": " RAW-[0-9]+-BEGIN", "enable_processing_cmt": " RAW-[0-9]+-END",
                                                       "processing_cmt_as_regex": "true"}, "-BEGIN", "-END"),
    # regex mode switched on while one or both markers keep their built-in text (which is never a regular expression)
    "regex-default": ("/* *INDENT-OFF* */", "/* *INDENT-ON* */", {"processing_cmt_as_regex": "true"}, " *INDENT-OFF*", " *INDENT-ON*"),
    "regex-off-only": ("/* RAW-17-BEGIN */", "/* *INDENT-ON* */", {"disable_processing_cmt": " RAW-[0-9]+-BEGIN", "processing_cmt_as_regex": "true"},
                       "-BEGIN", " *INDENT-ON*"),
    "regex-on-only": ("// *INDENT-OFF*", "// RAW-17-END", {"enable_processing_cmt": " RAW-[0-9]+-END", "processing_cmt_as_regex": "true"},
                      " *INDENT-OFF*", "-END"),
    "pragma-asm": ("#pragma asm", "#pragma endasm", {}, "#pragma asm", "endasm"),
    "asm": ("#asm", "#endasm", {}, "#asm", "#endasm"),
}


def build_input(lines, i, marker, content, term, terminated=True):
    """terminated: True (closed region), False (region runs to the end of the file), "nonl" (the same, and the file does not
    end in a line terminator)"""
    off, on = MARKERS[marker][0], MARKERS[marker][1]
    ls = lines[:i] + [off] + content + ([on] + lines[i:] if terminated is True else [])
    return (term.join(ls) + ("" if terminated == "nonl" else term)).encode("latin-1")


def split_lines(b):
    t = b.replace(b"\r\n", b"\n").replace(b"\r", b"\n")
    ls = t.split(b"\n")
    if ls and ls[-1] == b"":
        ls.pop()
    return ls


def norm(l):
    return b"" if not l.strip(b" \t\x0b\x0c") else l


def locate(out_lines, marker, terminated):
    offk, onk = MARKERS[marker][3].strip().encode(), MARKERS[marker][4].strip().encode()
    a = None
    for k, l in enumerate(out_lines):
        if offk in l and (marker != "pragma-asm" or b"endasm" not in l):
            a = k
            break
    if a is None:
        return None
    block = marker in ("block", "custom", "regex")
    def open_comment_at(k):
        """is line k inside / the start of a block comment that is not closed on line k?"""
        for q in range(k, max(-1, k - 4), -1):
            if b"//" in out_lines[q] and q == k:
                return False
            if b"/*" in out_lines[q]:
                return not any(b"*/" in out_lines[z] for z in range(q, k + 1))
        return False

    if block and open_comment_at(a):
        # the marker comment itself was re-flowed over several lines (cmt_width): the region starts after its last line
        for k in range(a + 1, min(a + 4, len(out_lines))):
            if b"*/" in out_lines[k]:
                a = k
                break
    if terminated is not True:
        return a, len(out_lines)
    for k in range(a + 1, len(out_lines)):
        if onk in out_lines[k]:
            if block and b"/*" not in out_lines[k] and b"//" not in out_lines[k]:
                for q in range(k - 1, max(a, k - 4), -1):
                    if b"/*" in out_lines[q]:
                        k = q
                        break
            return a, k
    return None


def evaluate(src_lines, i, marker, content, out, terminated):
    """-> (clause or None, outside lines)"""
    ol = split_lines(out)
    loc = locate(ol, marker, terminated)
    if loc is None:
        return "marker-lost", None
    a, b = loc
    got = [norm(l) for l in ol[a + 1:b]]
    want = [norm(l.encode("latin-1")) for l in content]
    if terminated is not True:
        # an unterminated region runs to the end of the file; trailing blank lines are the file's end, not region text
        while got and got[-1] == b"":
            got.pop()
        while want and want[-1] == b"":
            want.pop()
    if got != want:
        if [g for g in got if g] == [w for w in want if w]:
            return "blank-lines-in-region-changed", None
        if len(got) == len(want) and all(g == w or g.rstrip() == w.rstrip() for g, w in zip(got, want)):
            return "trailing-blanks-in-region-changed", None
        return "region-text-changed", None
    return None, ol[:a + 1] + ol[b:]


def cause_of(devs, bname):
    """descriptor used to match known findings: the family of the deviating option, or the profile"""
    if devs:
        n = devs[0][0]
        for pre in ("code_width", "eat_blanks", "nl_max", "nl_before", "nl_after", "nl_remove_extra", "mod_full_brace", "mod_paren", "mod_full_paren", "cmt_width"):
            if n.startswith(pre):
                return pre
        return n.split("_")[0]
    return "profile:" + bname


def job(j):
    name, lang, lines, i, marker, term, terminated, bname, settings, contents, sweep = j
    res = {"id": "%s@%d/%s" % (name, i, marker), "runs": 0, "nontrivial": 0, "cases": 0, "viol": [], "pruned": 0}
    base = {k: v for k, v in settings.items() if k not in ("utf8_force", "utf8_byte", "utf8_bom")}
    base.update(MARKERS[marker][2])
    R = bee.reg()

    def one(devs, want_reads=False):
        cfg = configs.text(base, devs)
        outs = {}
        reads = None
        for cn, content in contents:
            src = build_input(lines, i, marker, content, term, terminated)
            r = run.unc(src, cfg or None, lang, hooks=("reads",) if want_reads and reads is None else ())
            res["runs"] += 1; res["cases"] += 1
            if want_reads and reads is None:
                reads = r.reads
            if r.timeout or r.rc != 0:
                outs[cn] = None
                continue
            if r.out != src:
                res["nontrivial"] += 1
            clause, outside = evaluate(lines, i, marker, content, r.out, terminated)
            if clause == "marker-lost" and 0 < int(dict(base, **dict(devs)).get("code_width", "0")) < 40:
                res["inconclusive"] = res.get("inconclusive", 0) + 1      # the marker line itself was split by code_width
                outs[cn] = None
                continue
            w0 = {"lang": lang, "marker": marker, "content": cn, "base": bname, "devs": ",".join("%s=%s" % d for d in devs), "term": "crlf" if term == "\r\n" else "lf",
                  "terminated": terminated, "cause": cause_of(devs, bname)}
            if clause:
                res["viol"].append((dict(w0, clause=clause), {"input": src, "output": r.out, "config.cfg": cfg, "lang": lang, "where": "%s line %d" % (name, i)}))
                outs[cn] = None
            else:
                outs[cn] = outside
        ok = {k: v for k, v in outs.items() if v is not None}
        if len(ok) >= 2:
            ref_k = next(iter(ok))
            for k, v in ok.items():
                if v != ok[ref_k]:
                    src = build_input(lines, i, marker, dict(contents)[k], term, terminated)
                    res["viol"].append(({"clause": "region-content-changes-output-outside", "lang": lang, "marker": marker, "content": k, "ref_content": ref_k,
                                         "base": bname, "devs": ",".join("%s=%s" % d for d in devs), "terminated": terminated, "cause": cause_of(devs, bname)},
                                        {"input": src, "output": b"\n".join(v), "output_ref": b"\n".join(ok[ref_k]), "config.cfg": cfg, "lang": lang,
                                         "where": "%s line %d" % (name, i)}))
                    break
        return reads

    reads = one((), want_reads=sweep)
    if sweep and reads is not None:
        # (the markers themselves are fixed per job; utf8_force / utf8_byte transcode the whole file, which is C09's subject)
        pred = lambda n: n not in ("disable_processing_cmt", "enable_processing_cmt", "processing_cmt_as_regex", "utf8_force", "utf8_byte", "utf8_bom") \
            and not n.startswith("cmt_insert_")
        s1 = configs.singles(R, base, reads, pred, allow_lexer=True)
        res["pruned"] = len(configs.singles(R, base, None, pred, allow_lexer=True)) - len(s1)
        for d in s1:
            one((d,))
    return res


def programs(quick):
    out = []
    for name, lang, src in skel.all_skeletons():
        out.append((name, lang, src.decode().rstrip("\n").split("\n")))
    for n, s in cgen.pp_units():
        if n in ("if-inside", "define-multi", "first-dir"):
            out.append(("pp-" + n, "C", s.decode().rstrip("\n").split("\n")))
    for n, s in cgen.decl_units("C"):
        if n in ("varblock", "infinite", "semis", "returns"):
            out.append(("decl-" + n, "C", s.decode().rstrip("\n").split("\n")))
    return out


def check(ctx):
    quick = ctx.tier == "quick"
    R = bee.reg()
    P = configs.profiles()
    sinks = c06.sink_profiles(R)
    contents_all = CONTENTS
    contents_q = [c for c in CONTENTS if c[0] in QUICK_CONTENTS]
    jobs = []
    progs = programs(quick)
    profs = [("defaults", {})] + [(n, p) for n, p in P.items() if n in ("linux", "ben", "sun", "gnu-indent", "msvc")] + \
        [(n, sinks[n]) for n in ("sink-force-true", "sink-add-false-num1")]
    for name, lang, lines in progs:
        positions = [i for i in range(len(lines) + 1) if i == 0 or not lines[i - 1].endswith("\\")]
        for i in positions:
            for marker in MARKERS:
                if quick and marker in ("regex", "asm") and i % 3:
                    continue
                if marker.startswith("regex-") and i % 3:
                    continue          # both tiers: every third position for the mixed regex / built-in marker pairs
                if quick and lang not in ("C", "CPP", "PAWN", "OC") and i % 2:
                    continue
                for pn, st in (profs[:2] if quick else profs):
                    jobs.append((name, lang, lines, i, marker, "\n", True, pn, st, contents_q if quick else contents_all, False))
                if i % 4 == 0 or not quick:
                    jobs.append((name, lang, lines, i, marker, "\r\n", True, "defaults", {}, contents_q[:4] if quick else contents_all, False))
                if i in (0, len(lines)) or not quick:
                    jobs.append((name, lang, lines, i, marker, "\n", False, "defaults", {}, contents_q[:5] if quick else contents_all, False))
                    # ... and as the very end of a file that has no final line terminator (contents ending in blanks / tabs included)
                    nonl = [c for c in contents_all if c[0] in ("tabs-trailing", "misindented", "tidy", "col1-comments", "not-code")]
                    jobs.append((name, lang, lines, i, marker, "\n", "nonl", "defaults", {}, nonl, False))
    # single deviations over the read set
    order = ("misindented", "col1-comments", "backslash-cont", "blank-runs", "lone-close-brace", "ws-only-lines")
    sweepc = [(n, dict(CONTENTS)[n]) for n in order]
    for name, lang, lines in progs:
        if quick and name not in ("c-basic", "cpp-class", "pawn-basic", "c-switch", "pp-if-inside", "decl-varblock"):
            continue
        pos = [i for i in range(len(lines) + 1) if i == 0 or not lines[i - 1].endswith("\\")]
        pick = pos[2::5] if quick else sorted(set(pos[::2]) | set(pos[2::5]))     # thorough is a superset of quick
        for i in pick:
            for marker in (("block",) if quick else ("block", "pragma-asm", "line")):
                jobs.append((name, lang, lines, i, marker, "\n", True, "defaults", {}, sweepc[:4] if quick else sweepc, True))
    ctx.log("jobs: %d (programs %d)" % (len(jobs), len(progs)))
    jobs.sort(key=lambda j: -int(j[-1]))
    agg = {"runs": 0, "nontrivial": 0, "cases": 0, "pruned": 0}
    with run.Pool() as pool:
        a = job(jobs[-1]); b = job(jobs[-1])
        if (a["runs"], len(a["viol"])) != (b["runs"], len(b["viol"])):
            print("HARNESS-NONDETERMINISM"); raise SystemExit(2)
        for res in pool.imap(job, jobs, chunksize=1, deadline=ctx.deadline):
            for k in agg:
                agg[k] += res[k]
            for w, files in res["viol"]:
                # the witness proper is (clause, cause); everything else is detail (keeps one replay per kind of violation)
                import json as _json
                files = dict(files); files["detail.json"] = _json.dumps(w, indent=1)
                wk = {"clause": w["clause"], "cause": w.get("cause", ""), "marker": "pragma" if w["marker"] in ("pragma-asm", "asm") else "comment"}
                if w.get("content") == "foreign-end-marker" or w.get("ref_content") == "foreign-end-marker":
                    wk["content"] = "foreign-end-marker"
                ctx.rep.violation(wk, files, ["/verif/build/hooks/uncrustify", "-c", "config.cfg", "-l", files["lang"], "-f", "input"])
        if pool.cut:
            ctx.cut = True
    cov = {
        "evaluations": agg["runs"], "distinct_nontrivial": agg["nontrivial"],
        "states": len(jobs), "transitions": agg["runs"], "traces_validated_against_impl": agg["runs"],
        "rule": "%d programs x every line position x %d marker kinds x %d contents x profiles (+ CRLF and unterminated variants), plus every "
                "single deviation over the read set on %d (program, position, marker) jobs; states = (program, position, marker, profile) "
                "jobs; non-trivial = formatted output differs from the input" % (len(progs), len(MARKERS), len(contents_q if quick else contents_all),
                                                                                 sum(1 for j in jobs if j[-1])),
        "samples": [{"program": jobs[-1][0], "position": jobs[-1][3], "marker": jobs[-1][4], "contents": [c[0] for c in jobs[-1][9]]},
                    {"input": build_input(jobs[-1][2], jobs[-1][3], jobs[-1][4], CONTENTS[1][1], "\n").decode("latin-1")[:400]}],
        "single_deviations_pruned_by_read_set": agg["pruned"], "contents": [c[0] for c in (contents_q if quick else contents_all)],
    }
    return {"level": LEVEL, "coverage": cov,
            "assumptions": ["the marker lines themselves belong to the formatted part of the file",
                            "an option the base run never reads cannot change the run"]}


def replay(path):
    import json
    w = json.load(open(os.path.join(path, "witness.json")))["witness"]
    if os.path.exists(os.path.join(path, "detail.json")):
        w = dict(json.load(open(os.path.join(path, "detail.json"))), **w)
    print(json.dumps(w, indent=1))
    src = open(os.path.join(path, "input"), "rb").read()
    cfg = open(os.path.join(path, "config.cfg")).read() or None
    lang = open(os.path.join(path, "lang")).read()
    r = run.unc(src, cfg, lang)
    il = split_lines(src)
    marker = w["marker"]
    li = locate(il, marker, w.get("terminated", True))
    content = [l.decode("latin-1") for l in il[li[0] + 1:li[1]]]
    clause, outside = evaluate(None, 0, marker, content, r.out, w.get("terminated", True)) if r.rc == 0 else ("refused", None)
    if clause is None and w["clause"] == "region-content-changes-output-outside":
        ref = open(os.path.join(path, "output_ref"), "rb").read().split(b"\n")
        clause = None if outside == ref else "region-content-changes-output-outside"
    print("re-evaluated:", clause)
    return 1 if clause else 0
