"""C15  Configuration round-trips: a saved config reloads to the same settings.

cfg0 --update-config--> cfg1 --update-config--> cfg2   (and the same with --update-config-with-doc)
  (a) loading cfg1 produces no diagnostic            (b) cfg2 == cfg1 byte for byte
  (c) every setting in cfg1 is what cfg0 asked for   (d) formatting under cfg0 and under cfg1 is byte-identical
  (e) all spellings of one setting give the same dump

Universes (all enumerated completely):
  1. every option of the registry x every value of its alphabet (numeric min / interior / max, every enumerator)
  2. every string option x a 14-string alphabet (blanks, quotes, backslashes, '#', '=', regex metacharacters ...)
  3. directives: type / set <every token name> / macro-open,else,close / file_ext <every language> x word alphabet
  4. spellings: 'n=v', 'n v', 'n = v', 'n,v', upper case, every alias of the value, --set n=v, references to another option
     (plain, negated for numbers, inverted for bools)
  5. fixed universe: every shipped etc/*.cfg and every tests/config/**/*.cfg (thorough: all; quick: etc/ + every 8th)
  6. pairs: (string option with special characters) x (directive), (option, option) inside one group (thorough)
"""
import glob, os, re, shutil

from .. import bee, build, configs, registry, run
from ..universe import skel

LEVEL = "model_checking"
B = lambda: build.binary("hooks")
STRINGS = ["a b", 'a"b', "a\\b", "a\\\\", "a#b", "a=b", "^[a-z]+\\.h$", "(", "'", "`", "tail\\", "x\\\"y", "a\tb", " lead", "\\.h", "$(x)"]
WORDS = ["foo", "Foo_1", "a.b", ".ext", "x-y", "UPPER"]
ALIASES = {"bool": {"true": ["true", "t", "y", "yes", "1", "TRUE", "Yes"], "false": ["false", "f", "n", "no", "0", "FALSE"]},
           "iarf": {"ignore": ["ignore", "i", "IGNORE"], "add": ["add", "a", "2", "t", "true", "y", "yes", "ADD"],
                    "remove": ["remove", "r", "0", "false", "n", "no", "Remove"], "force": ["force", "1", "FORCE"]}}
SRC = [(n, l, s) for n, l, s in skel.all_skeletons(("C", "CPP")) if n in ("c-basic", "cpp-class")]


def parse_dump(text):
    """-> (settings {name: raw value text}, directive lines [str])"""
    st, dirs = {}, []
    for ln in text.split("\n"):
        if not ln.strip() or ln.lstrip().startswith("#"):
            continue
        m = re.match(r"^(\w+)\s*=\s*(.*)$", ln)
        if m:
            v = m.group(2)
            if v.startswith('"'):
                # closing quote = last unescaped quote before an optional trailing comment
                j = v.rfind('"')
                c = v.find('" ', 1)
                body = v[1:j] if j > 0 else v[1:]
                mm = re.match(r'^"((?:[^"\\]|\\.)*)"(\s+#.*)?$', v)
                if mm:
                    body = mm.group(1)
                st[m.group(1)] = '"' + body + '"'
            else:
                st[m.group(1)] = v.split("#", 1)[0].strip()
        else:
            dirs.append(" ".join(ln.split()))
    return st, dirs


def reader_unescape(s):
    out, i = [], 0
    while i < len(s):
        if s[i] == "\\" and i + 1 < len(s):
            out.append(s[i + 1]); i += 2
        elif s[i] == "\\":
            i += 1
        else:
            out.append(s[i]); i += 1
    return "".join(out)


def cfg_quote(s):
    """how a user writes string s in a config file so that the documented reader yields s"""
    return '"' + s.replace("\\", "\\\\").replace('"', '\\"') + '"'


def update(d, cfgpath, doc=False, extra=()):
    return run.run_argv([B(), "-c", cfgpath, "--update-config-with-doc" if doc else "--update-config"] + list(extra), cwd=d, timeout=20)


def fmt(d, cfgpath, src, lang):
    return run.run_argv([B(), "-c", cfgpath, "-l", lang, "-q"], stdin=src, cwd=d, timeout=20)


def roundtrip(d, cfg0_text, expect=None, expect_dirs=None, doc=False, do_format=True, extra=()):
    """-> (list of (clause, detail)), runs"""
    v = []
    p0 = os.path.join(d, "cfg0.cfg"); open(p0, "wb").write(cfg0_text.encode("latin-1"))
    r1 = update(d, p0, doc, extra)
    runs = 1
    if r1.timeout or r1.rc != 0:
        return [("cfg0-not-loaded", "rc=%s %s" % (r1.rc, r1.err[-300:].decode("latin-1")))], runs, None
    p1 = os.path.join(d, "cfg1.cfg"); open(p1, "wb").write(r1.out)
    r2 = update(d, p1, doc); runs += 1
    if r2.timeout or r2.rc != 0:
        return [("saved-config-not-loadable", "rc=%s %s" % (r2.rc, r2.err[-300:].decode("latin-1")))], runs, r1.out
    if r2.err.strip():
        v.append(("saved-config-produces-diagnostic", r2.err[-300:].decode("latin-1")))
    if r2.out != r1.out:
        a, b = r1.out.decode("latin-1").split("\n"), r2.out.decode("latin-1").split("\n")
        diff = [(x, y) for x, y in zip(a, b) if x != y][:2] or [("len", "%d/%d" % (len(a), len(b)))]
        v.append(("not-idempotent", repr(diff)))
    st, dirs = parse_dump(r1.out.decode("latin-1"))
    for name, want in (expect or {}).items():
        got = st.get(name)
        if got is None:
            v.append(("option-missing-in-saved-config", name))
        elif got.startswith('"'):
            if reader_unescape(got[1:-1]) != want:
                v.append(("saved-value-differs", "%s: wanted %r, saved %s" % (name, want, got)))
        elif got.lower() != want.lower():
            v.append(("saved-value-differs", "%s: wanted %r, saved %s" % (name, want, got)))
    norm = {"set TYPE": "type", "set MACRO_OPEN": "macro-open", "set MACRO_ELSE": "macro-else", "set MACRO_CLOSE": "macro-close"}
    for dl in (expect_dirs or ()):
        for a, b in norm.items():       # 'set TYPE x' is the same request as 'type x' and is saved in that form
            if dl.startswith(a + " "):
                dl = b + dl[len(a):]
        if dl not in dirs:
            v.append(("directive-lost", "%s not in %s" % (dl, dirs[-6:])))
    if do_format and not v:
        for n, lang, src in SRC:
            f0 = fmt(d, p0, src, lang); f1 = fmt(d, p1, src, lang); runs += 2
            if (f0.rc, f0.out) != (f1.rc, f1.out):
                v.append(("formatting-differs-under-saved-config", n))
    return v, runs, r1.out


def option_job(name):
    """universes 1, 2, 4 for one option"""
    R = bee.reg()
    o = R[name]
    res = {"id": name, "runs": 0, "nontrivial": 0, "cases": 0, "viol": []}
    d = run.fresh_dir()

    def report(clause, detail, cfg0, kind):
        res["viol"].append(({"clause": clause, "opt": name, "type": o.type, "kind": kind}, {"config.cfg": cfg0, "detail": detail}))

    try:
        vals = registry.alphabet(o) if o.type != "string" else STRINGS + ["", "word"]
        canon = {}
        for i, val in enumerate(vals):
            txt = "%s = %s\n" % (name, cfg_quote(val) if o.type == "string" else val)
            for doc in ((False, True) if i < 2 else (False,)):
                v, n, dump = roundtrip(d, txt, expect={name: val}, doc=doc, do_format=not doc)
                res["runs"] += n; res["cases"] += 1
                if val != o.default:
                    res["nontrivial"] += 1
                for clause, detail in v:
                    report(clause, detail, txt, "value" + ("-doc" if doc else ""))
                if not doc:
                    canon[val] = dump
        # spellings
        if o.type != "string":
            v1 = next((x for x in vals if x != o.default), None)
            if v1 is not None and canon.get(v1) is not None:
                sp = [("nospace", "%s=%s" % (name, v1)), ("blank", "%s %s" % (name, v1)), ("comma", "%s,%s" % (name, v1)),
                      ("upper", "%s = %s" % (name.upper(), v1.upper())), ("tabs", "%s\t=\t%s" % (name, v1)), ("trailing-comment", "%s = %s # c" % (name, v1)),
                      ("quoted", '%s = "%s"' % (name, v1)), ("crlf", "%s = %s\r" % (name, v1)), ("lead-blank", "   %s = %s" % (name, v1))]
                for val in vals:
                    for al in ALIASES.get(o.type, {}).get(val, []):
                        sp.append(("alias:" + al, "%s = %s" % (name, al), val))
                for s in sp:
                    kind, line = s[0], s[1]
                    want = canon.get(s[2] if len(s) > 2 else v1)
                    p = os.path.join(d, "sp.cfg"); open(p, "w", newline="").write(line + "\n")
                    r = update(d, p); res["runs"] += 1; res["cases"] += 1
                    if r.rc != 0 or r.out != want or r.err.strip():
                        report("spelling-not-equivalent", "%s -> rc=%s %s" % (line, r.rc, r.err[-200:].decode("latin-1")), line + "\n", kind)
                # --set
                r = run.run_argv([B(), "-c", "-", "--set", "%s=%s" % (name, v1), "--update-config"], cwd=d); res["runs"] += 1; res["cases"] += 1
                if r.rc != 0 or r.out != canon[v1]:
                    report("spelling-not-equivalent", "--set %s=%s -> rc=%s %s" % (name, v1, r.rc, r.err[-200:].decode("latin-1")), "", "--set")
                # references
                other = next((x.name for x in R.values() if x.type == o.type and x.name != name and not x.name.startswith("debug")
                              and (o.type not in ("unsigned", "signed") or (x.minv == o.minv and x.maxv == o.maxv))), None)
                if other:
                    refs = [("ref", "%s = %s\n%s = %s\n" % (other, v1, name, other), "%s = %s\n%s = %s\n" % (other, v1, name, v1))]
                    if o.type == "bool":
                        nv = "false" if v1 == "true" else "true"
                        for c in "!~-":
                            refs.append(("ref-inverted" + c, "%s = %s\n%s = %s%s\n" % (other, nv, name, c, other), "%s = %s\n%s = %s\n" % (other, nv, name, v1)))
                    if o.type == "signed" and (o.minv is None or o.minv < 0):
                        refs.append(("ref-negated", "%s = 1\n%s = -%s\n" % (other, name, other), "%s = 1\n%s = -1\n" % (other, name)))
                    if o.type == "signed" and name != "indent_columns":
                        # a negated reference to an UNSIGNED option (the negation must happen in signed arithmetic)
                        for val in ("1", "4"):
                            if o.minv is None or o.minv <= -int(val):
                                refs.append(("ref-negated-unsigned", "indent_columns = %s\n%s = -indent_columns\n" % (val, name),
                                             "indent_columns = %s\n%s = -%s\n" % (val, name, val)))
                                refs.append(("ref-negated-unsigned-upper", "indent_columns = %s\n%s = -INDENT_COLUMNS\n" % (val, name.upper()),
                                             "indent_columns = %s\n%s = -%s\n" % (val, name, val)))
                    for kind, a, b in refs:
                        pa = os.path.join(d, "ra.cfg"); open(pa, "w").write(a)
                        pb = os.path.join(d, "rb.cfg"); open(pb, "w").write(b)
                        ra, rb = update(d, pa), update(d, pb); res["runs"] += 2; res["cases"] += 1
                        if ra.rc != 0 or ra.out != rb.out or ra.err.strip():
                            report("reference-not-equivalent", "%r vs %r: %s" % (a, b, ra.err[-200:].decode("latin-1")), a, kind)
    finally:
        shutil.rmtree(d, True)
    return res


def token_names():
    txt = open(os.path.join(build.REPO, "src", "token_enum.h")).read()
    # CT_NONE means "no token": 'set NONE x' is (rightly) answered with "unknown type"
    return sorted(set(re.findall(r"^\s*CT_(\w+),", txt, re.M)) - {"NONE"})


def directive_job(j):
    kind, line, expect_dir = j
    res = {"id": line, "runs": 0, "nontrivial": 1, "cases": 1, "viol": []}
    d = run.fresh_dir()
    try:
        ed = list(expect_dir) if isinstance(expect_dir, tuple) else ([expect_dir] if expect_dir else None)
        v, n, dump = roundtrip(d, line + "\n", expect_dirs=ed, do_format=True)
        res["runs"] += n
        for clause, detail in v:
            res["viol"].append(({"clause": clause, "directive": kind}, {"config.cfg": line + "\n", "detail": detail}))
    finally:
        shutil.rmtree(d, True)
    return res


def file_job(j):
    name, path = j
    res = {"id": name, "runs": 0, "nontrivial": 1, "cases": 1, "viol": []}
    d = run.fresh_dir()
    try:
        text = open(path, "rb").read().decode("latin-1")
        # include directives are relative to the file: load from its own directory
        p0 = os.path.join(d, "cfg0.cfg")
        r1 = run.run_argv([B(), "-c", path, "--update-config"], cwd=os.path.dirname(path), timeout=20); res["runs"] += 1
        if r1.rc != 0 or r1.timeout:
            res["nontrivial"] = 0
            return res
        p1 = os.path.join(d, "cfg1.cfg"); open(p1, "wb").write(r1.out)
        r2 = update(d, p1); res["runs"] += 1
        v = []
        if r2.rc != 0:
            v.append(("saved-config-not-loadable", r2.err[-300:].decode("latin-1")))
        else:
            new_diag = [l for l in r2.err.decode("latin-1").splitlines() if l.strip() and "cfg1.cfg" in l]
            if new_diag:
                v.append(("saved-config-produces-diagnostic", "\n".join(new_diag[:3])))
            if r2.out != r1.out:
                a, b = r1.out.decode("latin-1").split("\n"), r2.out.decode("latin-1").split("\n")
                v.append(("not-idempotent", repr([(x, y) for x, y in zip(a, b) if x != y][:2])))
        if not v:
            for n, lang, src in SRC:
                f0 = run.run_argv([B(), "-c", path, "-l", lang, "-q"], stdin=src, cwd=os.path.dirname(path), timeout=20)
                f1 = fmt(os.path.dirname(path), p1, src, lang); res["runs"] += 2     # same cwd: cmt_insert_* paths are cwd-relative
                if (f0.rc, f0.out) != (f1.rc, f1.out):
                    v.append(("formatting-differs-under-saved-config", n))
        for clause, detail in v:
            res["viol"].append(({"clause": clause, "file": name}, {"config.cfg": text, "detail": detail}))
    finally:
        shutil.rmtree(d, True)
    return res


def pair_job(j):
    kind, text, expect, dirs = j
    res = {"id": kind, "runs": 0, "nontrivial": 1, "cases": 1, "viol": []}
    d = run.fresh_dir()
    try:
        v, n, dump = roundtrip(d, text, expect=expect, expect_dirs=dirs, do_format=True)
        res["runs"] += n
        for clause, detail in v:
            res["viol"].append(({"clause": clause, "pair": kind}, {"config.cfg": text, "detail": detail}))
    finally:
        shutil.rmtree(d, True)
    return res


def check(ctx):
    quick = ctx.tier == "quick"
    R = bee.reg()
    names = list(R)
    agg = {"runs": 0, "nontrivial": 0, "cases": 0}

    def take(res):
        for k in agg:
            agg[k] += res[k]
        for w, files in res["viol"]:
            files = dict(files); files.setdefault("input", SRC[0][2]); files.setdefault("lang", "C")
            ctx.rep.violation(w, files, [B(), "-c", "config.cfg", "--update-config"])

    pad = lambda kw, w: "%s %s" % (kw, w)
    dj = []
    for w in WORDS:
        dj.append(("type", "type " + w, "type " + w))
        for kw in ("macro-open", "macro-else", "macro-close"):
            dj.append((kw, "%s %s" % (kw, w), "%s %s" % (kw, w)))
    dj.append(("type-multi", "type aa bb cc", "type bb"))
    for t in token_names():
        dj.append(("set", "set %s zzword" % t, "set %s zzword" % t))
    for lang in ("C", "CPP", "D", "CS", "JAVA", "OC", "VALA", "PAWN", "ECMA", "OC+", "CS+", "C-Header"):
        for ext in (".zz", "zz", ".a.b"):
            dj.append(("file_ext", "file_ext %s %s" % (lang, ext), None))
    dj.append(("file_ext-multi", "file_ext CPP .xx .yy", "file_ext CPP .xx .yy"))
    # pairs of directives (two languages with custom extensions, two types, open+close macro, ...)
    LANGS = ("C", "CPP", "D", "CS", "JAVA", "OC", "VALA", "PAWN", "ECMA", "OC+", "CS+", "C-Header")
    for a in LANGS:
        for b in LANGS:
            if a != b:
                dj.append(("file_ext-pair", "file_ext %s .aaa\nfile_ext %s .bbb" % (a, b), ("file_ext %s .aaa" % a, "file_ext %s .bbb" % b)))
    dj.append(("file_ext-triple", "file_ext C .aaa\nfile_ext CPP .bbb .ccc\nfile_ext D .ddd", ("file_ext C .aaa", "file_ext CPP .bbb .ccc", "file_ext D .ddd")))
    singles_d = ["type Aaa", "type Bbb", "macro-open MO", "macro-else ME", "macro-close MC", "set FOR zfor", "set IF zif", "file_ext CPP .qq"]
    for a in singles_d:
        for b in singles_d:
            if a < b:
                dj.append(("directive-pair", a + "\n" + b, (a, b)))
    for u in ("0.68", "0.69", "0.70", "0.73", "0.74", "0.75", "0.78", "0.78.1"):
        dj.append(("using", "using %s\nindent_columns = 3" % u, None))
    # deprecated names under 'using' (compat tables)
    files = [("etc/" + os.path.basename(p), p) for p in sorted(glob.glob(os.path.join(build.REPO, "etc", "*.cfg")))]
    tc = sorted(glob.glob(os.path.join(build.REPO, "tests", "config", "**", "*.cfg"), recursive=True))
    files += [("tests/config/" + os.path.relpath(p, os.path.join(build.REPO, "tests", "config")), p) for p in (tc[::8] if quick else tc)]
    pairs = []
    sopts = [o.name for o in R.values() if o.type == "string" and not o.name.startswith("cmt_insert")]
    for so in sopts:
        for s in STRINGS[:8]:
            pairs.append(("string+type", "%s = %s\ntype Foo\nset FOR zz\n" % (so, cfg_quote(s)), {so: s}, ["type Foo", "set FOR zz"]))
    if not quick:
        groups = {}
        for o in R.values():
            groups.setdefault(o.group, []).append(o)
        for g, lst in groups.items():
            lst = [o for o in lst if o.type != "string"]
            for i in range(0, len(lst) - 1):
                a, b = lst[i], lst[i + 1]
                va = next((x for x in registry.alphabet(a) if x != a.default), None)
                vb = next((x for x in reversed(registry.alphabet(b)) if x != b.default), None)
                if va and vb:
                    pairs.append(("option-pair", "%s = %s\n%s = %s\n" % (a.name, va, b.name, vb), {a.name: va, b.name: vb}, None))
    ctx.log("options: %d, directive cases: %d, config files: %d, pairs: %d" % (len(names), len(dj), len(files), len(pairs)))
    with run.Pool() as pool:
        a = option_job("sp_arith"); b = option_job("sp_arith")
        if (a["runs"], a["cases"], len(a["viol"])) != (b["runs"], b["cases"], len(b["viol"])):
            print("HARNESS-NONDETERMINISM"); raise SystemExit(2)
        for fn, jobs, cs in ((option_job, names, 4), (directive_job, dj, 8), (file_job, files, 4), (pair_job, pairs, 8)):
            for res in pool.imap(fn, jobs, chunksize=cs, deadline=ctx.deadline):
                take(res)
        if pool.cut:
            ctx.cut = True
    cov = {
        "evaluations": agg["runs"], "distinct_nontrivial": agg["nontrivial"],
        "states": agg["cases"], "transitions": agg["runs"], "traces_validated_against_impl": agg["runs"],
        "rule": "every option (%d) x every value of its alphabet (+ 16 special strings for string options), each round-tripped twice and "
                "formatted under cfg0/cfg1; every spelling / alias / --set / reference form per option; %d directive cases (every token name "
                "for 'set', every language for file_ext); %d configuration files of the repository as a fixed universe; %d pairs. "
                "non-trivial = the case sets something to a non-default value" % (len(names), len(dj), len(files), len(pairs)),
        "samples": [{"cfg0": "include_category_0 = " + cfg_quote(STRINGS[6])}, {"cfg0": dj[30][1]}, {"file": files[3][0]}, {"spelling": "SP_ARITH = FORCE"}],
        "options": len(names), "cases": agg["cases"],
    }
    return {"level": LEVEL, "coverage": cov,
            "assumptions": ["the dump produced by --update-config is the only observation of the loaded option values besides formatting",
                            "string values are written by the user with \\\\ and \\\" escaped, as the reader documents"]}


def replay(path):
    import json
    w = json.load(open(os.path.join(path, "witness.json")))
    print(json.dumps(w, indent=1))
    d = run.fresh_dir()
    txt = open(os.path.join(path, "config.cfg"), "rb").read().decode("latin-1")
    v, n, dump = roundtrip(d, txt)
    print("re-evaluated:", v)
    return 1 if v else 0
