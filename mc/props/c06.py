"""C06  Any input terminates cleanly: formatted, or refused with a diagnostic.

Stateless bounded-exhaustive exploration on the ASan+UBSan build (and, for the widest option sweep of the quick
tier, on the plain build):

 (i)   every line-prefix truncation of every corpus file, in its language
 (ii)  every byte prefix and every line suffix of every language skeleton and of the generated declaration /
       preprocessor units (files ending inside every construct, without final newline)
 (iii) token mutations of the skeletons (delete / duplicate / swap at every position; every bracket replaced by
       every other bracket)
 (iv)  all byte strings of length <= 2 (thorough; quick: over a 44-byte alphabet) as a whole file and after a valid line
 (v)   unterminated comment / string / raw string / directive / bracket tails after a valid line
 x nine languages x {defaults, curated profiles, kitchen-sink profiles, comment-insertion profile}
 plus every single deviation of every option the run reads (incl. mod_/cmt_/lexer options) on the inputs of (ii) that
 end at a line end without newline and on (v).

Oracle: terminated by exit (no signal), status in {0, 1, 64..78}, no sanitizer report, within 10 s (confirmed alone with
60 s); status != 0 => nothing on stdout; status != 0 and no -q => a diagnostic on stderr.
"""
import os, re, signal, subprocess, time

from .. import bee, build, configs, registry, run
from ..universe import cgen, corpus, skel

LEVEL = "model_checking"
FLAVOURS = ("hooks", "asan")
OK_STATUS = {0, 1} | set(range(64, 79))
SAN_ENV = {"ASAN_OPTIONS": "detect_leaks=0:exitcode=99:allocator_may_return_null=1:malloc_limit_mb=2048",
           "UBSAN_OPTIONS": "print_stacktrace=1:halt_on_error=1:exitcode=98"}
HDR = os.path.join(configs.VERIF, "mc", "data", "hdr.txt")


def where_from(err):
    """first stack frame inside uncrustify's own sources that is not a list-walking primitive"""
    text = err.decode("latin-1", "replace")
    cand = None
    for m in re.finditer(r"#\d+ 0x[0-9a-f]+ in (.+?) (/\S+?):(\d+)", text):
        fn, path = m.group(1), m.group(2)
        if "/src/" not in path:
            continue
        base = os.path.basename(path)
        name = re.sub(r"\(.*", "", fn)
        if cand is None:
            cand = name
        if base in ("chunk.cpp", "chunk.h", "unc_text.cpp", "unc_text.h", "ListManager.h"):
            continue
        return name
    if cand:
        return cand
    m = re.search(r"terminate called after throwing an instance of '([^']+)'(?:\s+what\(\):\s*(.*))?", text)
    if m:
        return (m.group(1) + ": " + (m.group(2) or "")).strip()[:120]
    m = re.search(r"runtime error: (.{0,80})", text)
    if m:
        return m.group(1)
    return ""


def hang_where(case):
    """stack of a hanging run: SIGABRT after 5 s under the ASan build with handle_abort=1"""
    env = dict(run.BASE_ENV); env.update(SAN_ENV)
    env["ASAN_OPTIONS"] += ":handle_abort=1"
    argv = [build.binary("asan"), "-c", run.cfg_path(case["cfg"] or None), "-l", case["lang"], "-q"] + list(case.get("args") or ())
    try:
        p = subprocess.Popen(argv, stdin=subprocess.PIPE, stdout=subprocess.DEVNULL, stderr=subprocess.PIPE, env=env, cwd=run.scratch())
        try:
            p.stdin.write(case["src"]); p.stdin.close()
        except OSError:
            pass
        time.sleep(5)
        p.send_signal(signal.SIGABRT)
        try:
            err = p.stderr.read()
            p.wait(20)
        except Exception:
            p.kill(); err = b""
        return where_from(err)
    except Exception:
        return ""


_hangs_confirmed = [0]


def judge(case, r):
    out = []
    lang = case["lang"]
    base = {"lang": lang, "base": case.get("base", "")}
    if r.timeout:
        # a hang is confirmed with a 60 s limit (inputs are a few hundred bytes; a normal run takes milliseconds); once this worker
        # has confirmed one, later candidates get 30 s (quick tier: 30 s / 15 s) - a tree that hangs on a whole family of inputs
        # must not eat the deadline
        r2 = run.unc(case["src"], case["cfg"] or None, lang, args=case.get("args", ()), flavour=case.get("flavour", "asan"),
                     quiet=case.get("quiet", False), env=case.get("env"), timeout=(30.0 if _hangs_confirmed[0] else 60.0) / (2 if case.get("meta", {}).get("quick") else 1))
        if r2.timeout:
            _hangs_confirmed[0] += 1
            out.append(dict(base, clause="hang", where=hang_where(case)))
            return out
        r = r2
    err = r.err or b""
    san = b"ERROR: AddressSanitizer" in err or b"runtime error:" in err or b"ERROR: UndefinedBehaviorSanitizer" in err
    if r.rc is not None and r.rc < 0:
        out.append(dict(base, clause="signal", signal=-r.rc, where=where_from(err)))
    elif san or r.rc in (98, 99):
        kind = "asan" if b"AddressSanitizer" in err else "ubsan"
        m = re.search(rb"AddressSanitizer: ([\w-]+)", err)
        out.append(dict(base, clause="sanitizer", kind=(m.group(1).decode() if m else kind), where=where_from(err)))
    elif r.rc not in OK_STATUS:
        out.append(dict(base, clause="undocumented-status", status=r.rc))
    elif r.rc != 0:
        if r.out:
            out.append(dict(base, clause="output-on-failure", status=r.rc))
        if not case.get("quiet", False):
            diag = [l for l in err.split(b"\n") if l.strip() and b"Parsing: " not in l]
            if not diag:
                out.append(dict(base, clause="silent-failure", status=r.rc))
    return out


# ---------------------------------------------------------------------------
# input operators

def byte_prefixes(src):
    return [(("pre%d" % i), src[:i]) for i in range(len(src))]


def line_prefixes(src):
    """prefix ending after each line break, and the same without that line break"""
    out = []
    pos = 0
    lines = src.split(b"\n")
    for i, l in enumerate(lines[:-1]):
        pos += len(l) + 1
        out.append(("L%d" % (i + 1), src[:pos]))
    return out


def lineend_prefixes(src):
    """prefix ending at the end of each line WITHOUT its newline, and after the first blank of each line"""
    out = []
    pos = 0
    for i, l in enumerate(src.split(b"\n")):
        if l.strip():
            out.append(("E%d" % (i + 1), src[:pos + len(l)]))
            k = l.find(b" ", len(l) - len(l.lstrip()) + 1)
            if k > 0:
                out.append(("M%d" % (i + 1), src[:pos + k]))
        pos += len(l) + 1
    return out


def line_suffixes(src):
    out = []
    pos = 0
    for i, l in enumerate(src.split(b"\n")[:-1]):
        pos += len(l) + 1
        if pos < len(src):
            out.append(("S%d" % (i + 1), src[pos:]))
    return out


TOK = re.compile(rb'\s+|[A-Za-z_@#$][\w]*|\d[\w.]*|"(?:\\.|[^"\\\n])*"|\'(?:\\.|[^\'\\\n])*\'|.', re.S)
BRACKETS = [b"(", b")", b"[", b"]", b"{", b"}", b"<", b">"]


def token_mutations(src):
    toks = TOK.findall(src)
    idx = [i for i, t in enumerate(toks) if t.strip()]
    out = []
    for n, i in enumerate(idx):
        out.append(("del%d" % n, b"".join(toks[:i] + toks[i + 1:])))
        out.append(("dup%d" % n, b"".join(toks[:i] + [toks[i], b" "] + toks[i:])))
        if n + 1 < len(idx):
            j = idx[n + 1]
            t2 = list(toks); t2[i], t2[j] = t2[j], t2[i]
            out.append(("swap%d" % n, b"".join(t2)))
        if toks[i] in BRACKETS:
            for b in BRACKETS:
                if b != toks[i]:
                    t2 = list(toks); t2[i] = b
                    out.append(("br%d%s" % (n, b.decode()), b"".join(t2)))
    return out


TAILS = [b"/*", b"/* a", b"/* a\n * b", b"//", b"// a\\", b"// a\\\n", b'"', b'"abc', b'"abc\\', b"'", b"'a", b'R"x(', b'R"(abc', b'R"', b'L"a', b'u8"',
         b'@"', b'@"a', b'"""', b'"""a', b"/+", b"/+ /+ +/", b"`", b"`a", b'q"(', b'q"EOS\na', b"#define X", b"#define X \\", b"#define X(", b"#define",
         b"#if", b"#if 1", b"#ifdef", b"#else", b"#endif", b"#include <", b'#include "', b"#include", b"#pragma", b"#pragma asm", b"#asm", b"#", b"#error",
         b"(", b"{", b"[", b"<", b")", b"}", b"]", b"case 1", b"case", b"else", b"default", b"template<", b"template", b"@property (", b"@interface",
         b"@implementation X", b"@selector(", b"@", b"\\", b"$", b"if (a", b"if (a)", b"for (;;", b"for (", b"do", b"do {", b"while", b"switch (a) {", b"return",
         b"int f(", b"int f(void)", b"int x =", b"x ?", b"x ? 1 :", b"a ::", b"operator", b"class X :", b"class", b"struct", b"enum {", b"enum X { A,",
         b"typedef", b"namespace", b"namespace {", b"using", b"new", b"[[", b"__attribute__((", b"extern \"C\"", b"/* *INDENT-OFF* */", b"/* *INDENT-OFF* */\nx",
         b"goto", b"sizeof", b"a->", b"a.", b"a,", b"a =", b"a <<", b"try", b"catch (", b"delegate", b"foreach (", b"import", b"@synchronized(", b"^{", b"-(void)",
         b"- (void)a:", b"[a b", b"[a b:", b"x = @[", b"x = @{", b"public:", b"signals:", b"Q_OBJECT", b"SIGNAL(", b"lambda = [", b"[&](", b"[=]() {", b"??", b"?.", b"=>",
         b"assert(", b"invariant", b"unittest", b"version(", b"scope(", b"native", b"forward", b"stock f(", b"new a", b"public f(a"]
TAILS += [b"/*/", b"/**/", b"/* a */\n/*/", b"/* a */\n/* b", b"/* a */\n/**/", b"// a\n//", b"/* a */ /*/", b"/*/ x", b"/* a */\n/*", b"/**", b"/*!",
          b"//\\", b"/* a\n", b"/+/", b"/++/"]
# repetition universe: one token repeated N times (fixed-size tables and recursion depth)
REP = [b"<", b"< b ", b"(", b"[", b"{", b"*", b"&", b"::", b"a.", b"a->", b"!", b"-", b"if (a) ", b"else ", b"case 1: ", b"{ }", b"()", b"[]", b"<>",
       b"/**/", b'""', b"#if 1\n", b"#define A \\\n", b"a ? ", b"a, ", b"template<", b"@[", b"^{", b"new ", b"struct s { ", b"namespace n { ", b"try { ",
       b"do ", b"for (;;) ", b"while (a) ", b"switch (a) { ", b"(int)", b"sizeof ", b"typedef ", b"static ", b"a::", b"> ", b")", b"}", b"]", b"#endif\n",
       b"a < ", b"f(", b"x = ", b"::a<"]
A44 = sorted(set(b"\"'/*#\\\r\n\x00\x80\xff@$()[]{}<>RLu8`?:;,.=+-a1 \t%&|!~^"))


def sink_profiles(R):
    """kitchen-sink profiles: every option of a type at one value (checked to load; nl_max left alone so that the
    blank-line consistency rules cannot refuse the profile)"""
    def mk(iarf, boolv, pick):
        d = {}
        for o in R.values():
            if o.name.startswith("debug_") or o.name.startswith("warn_level") or o.type == "string" or registry.lexer_or_external(o.name):
                continue
            if o.type == "iarf":
                d[o.name] = iarf
            elif o.type == "bool":
                d[o.name] = boolv
            elif o.type in ("unsigned", "signed") and pick is not None and o.name != "nl_max":
                al = registry.alphabet(o)
                v = al[min(pick, len(al) - 1)]
                if o.name.startswith("nl_") and o.type == "unsigned":
                    v = str(min(int(v), 2))
                d[o.name] = v
        return d
    out = {"sink-force-true": mk("force", "true", None), "sink-remove-true": mk("remove", "true", None),
           "sink-add-false-num1": mk("add", "false", 1), "sink-force-true-num2": mk("force", "true", 2),
           "narrow": {"code_width": "10", "cmt_width": "10", "ls_for_split_full": "true", "ls_func_split_full": "true", "ls_code_width": "true"}}
    ins = {k: HDR for k in ("cmt_insert_file_header", "cmt_insert_file_footer", "cmt_insert_func_header", "cmt_insert_class_header",
                            "cmt_insert_oc_msg_header")}
    ins.update({"cmt_insert_before_preproc": "true", "cmt_insert_before_inlines": "true", "cmt_insert_before_ctor_dtor": "true"})
    out["inserts"] = ins
    return out


def all_family(name):
    return True


def pp_family(name):
    return name.startswith("pp_")


def check(ctx):
    quick = ctx.tier == "quick"
    R = bee.reg()
    P = configs.profiles()
    sinks = sink_profiles(R)
    env = SAN_ENV
    cases = []
    counts = {}

    def add(universe, cid, src, lang, bname, settings, flavour="asan", quiet=False):
        counts[universe] = counts.get(universe, 0) + 1
        cfg = configs.text(settings) if settings else None
        cases.append(bee.Case("%s/%s" % (cid, bname), src, lang, cfg, judge, flavour=flavour, quiet=quiet,
                              env=env if flavour == "asan" else None, meta={"base": bname, "universe": universe, "quick": quick}))

    skels = skel.all_skeletons()
    units = [(n, "C", s) for n, s in cgen.decl_units("C")] + [(n, "CPP", s) for n, s in cgen.decl_units("CPP") if n in dict(cgen.DECLS_CPP)] \
        + [("pp-" + n, "C", s) for n, s in cgen.pp_units()]
    allprof = [("defaults", {})] + list(sinks.items()) + [(n, p) for n, p in P.items() if n != "defaults"]
    # (ii) byte prefixes / line suffixes of skeletons and units
    n = 0
    pq = [allprof[0], allprof[1], allprof[3], allprof[6]]      # defaults, sink-force-true, sink-add-false-num1, inserts
    for name, lang, src in skels:
        for pid, x in byte_prefixes(src):
            for bn, st in (pq if quick else allprof):
                n += 1
                add("byte-prefix", "%s:%s" % (name, pid), x, lang, bn, st, quiet=(n % 10 == 0))
        for pid, x in line_suffixes(src):
            for bn, st in (pq if quick else allprof[:7]):
                add("line-suffix", "%s:%s" % (name, pid), x, lang, bn, st)
    for name, lang, src in units:
        if len(src) > 1500:
            continue
        for pid, x in (lineend_prefixes(src) if quick else byte_prefixes(src)):
            for bn, st in (allprof[:1] if quick else allprof[:7]):
                add("byte-prefix", "%s:%s" % (name, pid), x, lang, bn, st)
    # (ii') the language units (import/using runs, property attribute lists with getter=/setter=, lambdas, D/C#/Vala/Pawn
    #       constructs ...): every byte prefix and every token mutation, default configuration (thorough: + the kitchen sink)
    from ..universe import langunits
    lunits = [(n, lg, s) for lg in sorted(set(langunits.UNITS) | set(langunits.SP_UNITS)) for n, s, _m in langunits.units(lg) + langunits.sp_units(lg)]
    for name, lang, src in lunits:
        for pid, x in byte_prefixes(src):
            for bn, st in (allprof[:1] if quick else allprof[:2]):
                add("byte-prefix", "%s:%s" % (name, pid), x, lang, bn, st)
        for mid, x in token_mutations(src):
            add("token-mutation", "%s:%s" % (name, mid), x, lang, "defaults", {})
    # (iii) token mutations
    for name, lang, src in skels:
        for mid, x in token_mutations(src):
            for bn, st in (allprof[:1] if quick else allprof[:7]):
                add("token-mutation", "%s:%s" % (name, mid), x, lang, bn, st)
    # (iv) byte strings: all 256^2 pairs for C (thorough), pairs over the 44-byte alphabet elsewhere
    for lang in skel.LANGS:
        for a in range(256):
            add("bytes", "b1:%02x" % a, bytes([a]), lang, "defaults", {})
            add("bytes", "ab1:%02x" % a, b"int a;\n" + bytes([a]), lang, "defaults", {})
        if quick and lang not in ("C", "CPP", "PAWN", "D"):
            continue
        alpha = list(range(256)) if (not quick and lang == "C") else A44
        for a in alpha:
            for b in alpha:
                add("bytes", "b2:%02x%02x" % (a, b), bytes([a, b]), lang, "defaults", {})
                if not quick or lang == "C":
                    add("bytes", "ab2:%02x%02x" % (a, b), b"int a;\n" + bytes([a, b]), lang, "defaults", {})
    # (v) unterminated tails
    for lang in skel.LANGS:
        for i, t in enumerate(TAILS):
            for pre in ((b"int x;\n",) if quick else (b"", b"int x;\n", b"void f() {\n")):
                for bn, st in (pq if quick else allprof[:7]):
                    add("tails", "tail%d:%d" % (i, len(pre)), pre + t, lang, bn, st)
    # (vi) repetitions
    for lang in skel.LANGS:
        if quick and lang not in ("C", "CPP", "JAVA", "D", "OC"):
            continue
        for i, t in enumerate(REP):
            for n in ((1030,) if quick else (300, 1030, 4100)):
                add("repetition", "rep%d:x%d" % (i, n), b"void f() { x = a " + t * n + b"; }\n", lang, "defaults", {})
                if not quick or i % 2 == 0:
                    add("repetition", "rep%d:bare%d" % (i, n), t * n + b"\n", lang, "defaults", {})
    # (i) corpus truncations
    nfiles = 0
    for (name, lang, src) in corpus.files():
        nl = src.count(b"\n")
        if nl > (30 if quick else 1200) or len(src) > 60000:
            continue
        nfiles += 1
        for pid, x in line_prefixes(src):
            add("corpus-line-prefix", "%s:%s" % (name, pid), x, lang, "defaults", {})
    # single deviations over the read set (all options incl. mod_/cmt_/lexer options)
    groups = []
    dl = ctx.deadline - 30
    single_inputs = []
    for name, lang, src in skels:
        for i, (pid, x) in enumerate(lineend_prefixes(src)):
            if quick and (pid.startswith("M") or (lang not in ("C", "CPP", "OC", "PAWN") and i % 4)):
                continue
            single_inputs.append(("%s:%s" % (name, pid), lang, x))
    for name, lang, src in units:
        le = lineend_prefixes(src)
        if quick:
            le = le[-1:] if name in ("boolexpr", "returns", "semis", "infinite", "varblock", "class", "lambda", "trycatch", "pp-if-inside",
                                     "pp-define-multi", "pp-define-stmt", "pp-last-nonl", "pp-define-in-case", "cmtblock", "functor", "convop", "goto") else []
        for pid, x in le:
            single_inputs.append(("%s:%s" % (name, pid), lang, x))
    for lang in (("C",) if quick else skel.LANGS):
        for i, t in enumerate(TAILS):
            if quick and i % 2 and not t.startswith(b"/"):
                continue
            single_inputs.append(("tail%d" % i, lang, b"int x;\n" + t))
            if t.startswith(b"/") and (not quick or len(t) <= 4):
                single_inputs.append(("ctail%d" % i, lang, b"int x;\n/* a */\n" + t))
    for n_, (cid, lang, x) in enumerate(single_inputs):
        fl = "hooks" if (quick or n_ % 3) else "asan"      # thorough: every third input under the sanitizers, the rest on the plain build
        groups.append(bee.Group("C06", cid, x, lang, "defaults", {}, judge, all_family, None, 1, flavour=fl, quiet=False,
                                env=env if fl == "asan" else None, deadline=dl, allow_lexer=True, meta={"universe": "singles"}))
    # conditional-compilation blocks with unbalanced braces in one branch: bracket mutations of the #if/#elif/#else skeleton (C, and the
    # same text as C#) x every pp_* option value (pp_unbalanced_if_action = 1 / 2 must warn resp. refuse WITH a diagnostic)
    ppsrc = dict((n, s_) for n, l, s_ in skels)["c-pp-braces"]
    for mid, x in token_mutations(ppsrc):
        if not mid.startswith(("del", "dup")) or (b"{" not in x and b"}" not in x):
            continue
        if ppsrc.count(b"{") - ppsrc.count(b"}") == x.count(b"{") - x.count(b"}"):
            continue            # only mutations that change the brace balance
        for lang in ("C", "CS"):
            groups.append(bee.Group("C06", "c-pp-braces:%s" % mid, x, lang, "defaults", {}, judge, pp_family, None, 1, flavour="hooks" if quick else "asan",
                                    quiet=False, env=None if quick else env, deadline=dl, allow_lexer=True, meta={"universe": "pp-unbalanced"}))
    if quick:
        # a slice of the singles sweep under the sanitizers as well
        for cid, lang, x in single_inputs[::16]:
            groups.append(bee.Group("C06", cid, x, lang, "defaults", {}, judge, all_family, None, 1, flavour="asan", quiet=False,
                                    env=env, deadline=dl, allow_lexer=True, meta={"universe": "singles-asan"}))
    ctx.log("cases: %d %s ; single-deviation groups: %d ; corpus files: %d" % (len(cases), counts, len(groups), nfiles))
    with run.Pool() as pool:
        a = [bee.run_case(c)["key"] for c in cases[:40]]
        b = [bee.run_case(c)["key"] for c in cases[:40]]
        if a != b:
            print("HARNESS-NONDETERMINISM"); raise SystemExit(2)
        agg = bee.drive(ctx, groups, pool)
        ctx.log("singles done: runs=%d outcomes=%s" % (agg["runs"], agg["outcomes"]))
        agg2 = bee.drive_cases(ctx, cases, pool, chunksize=1, flavour="asan")
    outcomes = dict(agg2["outcomes"])
    for k, v in agg["outcomes"].items():
        outcomes[k] = outcomes.get(k, 0) + v
    cov = {
        "evaluations": agg["runs"] + agg2["runs"],
        "distinct_nontrivial": agg2["refused"] + agg["refused"],
        "states": len(cases) + agg["groups"], "transitions": agg["runs"] + agg2["runs"],
        "traces_validated_against_impl": agg["runs"] + agg2["runs"],
        "rule": "every element of the universes listed in universe_sizes (byte prefixes, line suffixes, token mutations, byte strings, "
                "unterminated tails, corpus line prefixes) x languages x profiles on the ASan+UBSan build, plus every single deviation of every "
                "option the run reads on %d construct-ending inputs (%s); a case is non-trivial when uncrustify REFUSES it (non-zero "
                "status: an error path was executed); distinct cases by construction" % (len(single_inputs), "plain build + a 1/16 slice under ASan" if quick else "every third input under ASan, the others on the plain build"),
        "samples": [{"id": c.cid, "lang": c.lang, "input": c.src[-60:].decode("latin-1")} for c in cases[:: max(1, len(cases) // 6)]][:8],
        "universe_sizes": counts, "single_deviation_groups": agg["groups"], "single_deviation_runs": agg["runs"],
        "single_deviations_pruned_by_read_set": agg["pruned"], "distinct_outcomes": outcomes,
        "timeouts_first_try": agg["timeouts"] + agg2["timeouts"], "corpus_files": nfiles,
        "profiles": [n for n, _ in allprof],
    }
    cov.update(bee.vacuity(agg))
    return {"level": LEVEL, "coverage": cov,
            "assumptions": ["clang ASan+UBSan report every memory-safety / undefined-behaviour fault they instrument",
                            "a run that exceeds 10 s and then 60 s (quick tier: 30 s; halved again once the worker has confirmed a hang) for an input of a few "
                            "hundred bytes is a hang"]}


def replay(path):
    import json
    w = json.load(open(os.path.join(path, "witness.json")))
    print(json.dumps(w, indent=1))
    lang = open(os.path.join(path, "lang")).read()
    src = open(os.path.join(path, "input"), "rb").read()
    cfg = open(os.path.join(path, "config.cfg")).read() or None
    build.build("asan")
    r = run.unc(src, cfg, lang, flavour="asan", quiet=False, env=SAN_ENV)
    v = judge({"src": src, "lang": lang, "cfg": cfg, "flavour": "asan", "quiet": False, "env": SAN_ENV}, r)
    print("re-evaluated:", v)
    return 1 if v else 0
