"""C04  Code-modifying options change only the tokens they name."""
import collections, os, re

from .. import bee, configs, oracles, run
from ..lex import cfamily
from ..universe import cgen, langunits, progsets

LEVEL = "model_checking"

# option (regex on name) -> token texts it may add or remove
PERMIT = [
    (r"^mod_full_brace_|^mod_case_brace$", {"{", "}"}),
    (r"^mod_paren_on_|^mod_full_paren_", {"(", ")"}),
    (r"^mod_remove_extra_semicolon$|^mod_pawn_semicolon$", {";"}),
    (r"^mod_int_|^mod_short_int$|^mod_long_int$|^mod_signed_int$|^mod_unsigned_int$", {"int"}),
    (r"^mod_enum_last_comma$", {","}),
    (r"^mod_remove_empty_return$", {"return", ";"}),
    (r"^mod_infinite_loop$", {"for", "while", "do", "(", ")", ";", "1", "true"}),
    (r"^mod_remove_duplicate_include$", {"DIR(", "DIR)", "#", "include", "<HDR>"}),
]
PERMUTE = re.compile(r"^mod_sort_|^mod_move_case_")
NO_TOKEN_EFFECT = re.compile(r"^mod_add_long_|^mod_add_force_|^mod_sort_case_sensitive$|^mod_sort_incl_import_|^mod_sort_oc_|^mod_full_brace_nl$"
                             r"|^mod_full_brace_nl_block_rem_mlcond$|^mod_full_brace_if_chain_only$|^mod_full_brace_function$")
BR = {"(": ")", "[": "]", "{": "}"}


def enabled(case, R):
    on = {}
    for k, v in list(case["base_settings"].items()) + list(case["devs"]):
        if k.startswith("mod_") and k in R and v != R[k].default:
            on[k] = v
        elif k.startswith("mod_") and k in on:
            del on[k]
    return on


def self_toks(dump):
    """uncrustify's own raw tokeniser (languages the independent lexer does not cover)"""
    out = []
    for kind, txt in oracles.self_tokens(dump):
        if kind in ("DIR(", "DIR)"):
            out.append(kind)
        else:
            out.append(kind + (txt.decode("latin-1") if isinstance(txt, bytes) else txt))
    return out


def tokens(data, lang):
    lx = cfamily.lex(data, oracles.INDEP_LANGS[lang])
    out = []
    for t in lx.toks:
        if t.kind == "hdr":
            out.append("<HDR>" + t.text)
        elif t.kind in ("DIR(", "DIR)"):
            out.append(t.kind)
        else:
            out.append(t.text)
    return out, lx.ok


def balanced(toks):
    st = []
    for t in toks:
        if t in BR:
            st.append(BR[t])
        elif t in (")", "]", "}"):
            if not st or st.pop() != t:
                return False
    return not st


def judge(case, r):
    if r.timeout or r.rc != 0:
        return []
    R = bee.reg()
    lang = case["lang"]
    if lang in oracles.INDEP_LANGS:
        a, oka = tokens(case["src"], lang)
        b, okb = tokens(r.out, lang)
    else:
        a = self_toks(r.hook.get("tokens"))
        r2 = run.unc(r.out, None, lang, hooks=("tokens",))
        b = self_toks(r2.hook.get("tokens"))
        oka = bool(a) and (bool(b) or not r.out.strip())
        okb = True
    if not oka:
        return []
    on = enabled(case, R)
    permit = set()
    permute = False
    for name in on:
        if PERMUTE.search(name):
            permute = True
        for rx, toks in PERMIT:
            if re.search(rx, name):
                permit |= toks
    out = []

    def strip(seq):
        res = []
        for t in seq:
            key = "<HDR>" if t.startswith("<HDR>") else t
            if key in permit:
                continue
            res.append(t)
        return res
    sa, sb = strip(a), strip(b)
    if permute:
        sa, sb = sorted(sa), sorted(sb)
    if sa != sb and "mod_sort_incl_import_grouping_enabled" in on and permute:
        # the grouping sort also drops exact duplicates of include/import lines; is that ALL that happened?
        src2 = without_duplicate_imports(case["src"], r.out)
        if src2 is not None:
            if lang in oracles.INDEP_LANGS:
                a2 = tokens(src2, lang)[0]
            else:
                a2 = self_toks(run.unc(src2, None, lang, hooks=("tokens",)).hook.get("tokens"))
            if sorted(strip(a2)) == sb:
                out.append({"clause": "duplicate-import-line-removed-by-grouping-sort", "enabled": ",".join(sorted(on))})
                sa = sb
    if sa != sb:
        i = oracles.first_diff(sa, sb)
        ca, cb = collections.Counter(abstract(t) for t in sa), collections.Counter(abstract(t) for t in sb)
        out.append({"removed": " ".join(sorted((ca - cb).keys())), "added": " ".join(sorted((cb - ca).keys())),
                    "clause": "token-not-named-by-enabled-options-changed" if on else "token-changed-with-all-mod-options-default",
                    "enabled": ",".join(sorted(on)), "_in": " ".join(sa[max(0, i - 2):i + 3]), "_out": " ".join(sb[max(0, i - 2):i + 3]),
                    "tok_in": abstract(sa[i]) if i < len(sa) else "<end>", "tok_out": abstract(sb[i]) if i < len(sb) else "<end>"})
    elif okb and balanced(a) and not balanced(b):
        out.append({"clause": "brackets-unbalanced", "enabled": ",".join(sorted(on))})
    else:
        # pairs: braces / parens are added or removed in matching numbers
        for o, c in (("{", "}"), ("(", ")")):
            if (b.count(o) - a.count(o)) != (b.count(c) - a.count(c)):
                out.append({"clause": "bracket-added-or-removed-without-partner", "enabled": ",".join(sorted(on)), "bracket": o})
                break
    for w in out:
        w["lang"] = lang
        w["ctx"] = case["meta"].get("ctx", "")
    return out


IMPORT_LINE = re.compile(rb"^(#\s*(include|import)\b|import\b|using\b)")


def without_duplicate_imports(src, out):
    """src minus those include/import/using lines that the output has fewer of while keeping at least one copy; None if there
    is no such line"""
    def norm(l):
        return b" ".join(l.split())
    li = src.split(b"\n")
    ci = collections.Counter(norm(l) for l in li if IMPORT_LINE.match(l.strip()))
    co = collections.Counter(norm(l) for l in out.split(b"\n") if IMPORT_LINE.match(l.strip()))
    rem = ci - co
    rem = {k: v for k, v in rem.items() if co.get(k, 0) >= 1}
    if not rem:
        return None
    keep = []
    for l in li:
        k = norm(l)
        if IMPORT_LINE.match(l.strip()) and rem.get(k, 0) > 0:
            rem[k] -= 1
            continue
        keep.append(l)
    return b"\n".join(keep)


def abstract(t):
    if t.startswith("<HDR>"):
        return "<HDR>"
    if re.match(r"^[A-Za-z_]\w*$", t) and t not in ("int", "return", "for", "while", "do", "if", "else", "break", "case", "default", "switch", "true", "include"):
        return "ID"
    if re.match(r"^[\d.]", t):
        return "NUM"
    return t


def mod_family(name):
    return name.startswith("mod_")


def brace_family(name):
    return name.startswith("mod_full_brace") or name == "mod_case_brace"


def paren_int_family(name):
    return name.startswith(("mod_paren", "mod_full_paren", "mod_int_", "mod_short", "mod_long", "mod_signed", "mod_unsigned",
                            "mod_remove", "mod_enum", "mod_infinite", "mod_sort", "mod_move"))


def nlsp_family(name):
    return name.startswith(("nl_", "sp_")) and not configs.is_modifying(name)


PRIMED = {
    "sort-on": {"mod_sort_include": "true", "mod_sort_import": "true", "mod_sort_using": "true", "mod_sort_oc_properties": "true"},
    "sort-group": {"mod_sort_include": "true", "mod_sort_import": "true", "mod_sort_incl_import_grouping_enabled": "true"},
    "brace-add": {"mod_full_brace_if": "add", "mod_full_brace_for": "add", "mod_full_brace_while": "add", "mod_full_brace_do": "add",
                  "mod_full_brace_using": "add"},
    "brace-remove": {"mod_full_brace_if": "remove", "mod_full_brace_for": "remove", "mod_full_brace_while": "remove",
                     "mod_full_brace_do": "remove", "mod_full_brace_using": "remove"},
    "int-add": {"mod_int_long": "add", "mod_long_int": "add", "mod_int_short": "add", "mod_short_int": "add",
                "mod_int_unsigned": "add", "mod_unsigned_int": "add", "mod_int_signed": "add", "mod_signed_int": "add"},
    "closebrace-comments": {"mod_add_long_function_closebrace_comment": "1", "mod_add_long_switch_closebrace_comment": "1",
                            "mod_add_long_namespace_closebrace_comment": "1", "mod_add_long_class_closebrace_comment": "1",
                            "mod_add_long_ifdef_endif_comment": "1", "mod_add_long_ifdef_else_comment": "1"},
}

UNITS = ("decl:returns", "decl:semis", "decl:longints", "decl:intspell", "decl:enum", "decl:infinite", "decl:boolexpr", "decl:ternary",
         "decl:funcs", "decl:goto", "pp:includes", "pp:if-inside", "pp:if-brace", "pp:define-stmt", "pp:define-multi")


def check(ctx):
    quick = ctx.tier == "quick"
    P = configs.profiles()
    groups = []
    dl = ctx.deadline - 25

    def G(prog, lang, bname, base, fam1=None, fam2=None, k=0):
        groups.append(bee.Group("C04", prog[0], prog[1], lang, bname, base, judge, fam1, fam2, k, meta=prog[2], deadline=dl,
                                hooks=() if lang in oracles.INDEP_LANGS else ("tokens",)))

    f1 = progsets.stmt_funcs(1, styles=("kr", "one", "ml", "ml2"))
    f2 = progsets.stmt_funcs(2, styles=("kr",))
    f2ml = progsets.stmt_funcs(2, styles=("ml", "ml2"))
    p1 = progsets.pack_funcs(f1, 10)
    p2 = progsets.pack_funcs(f2, 12)
    p2ml = progsets.pack_funcs([f for f in f2ml if f[1] in ("ml", "ml2")], 12)
    # every mod_* option at every value on every statement shape
    for pr in p1 + (p2[::3] if quick else p2 + p2ml):
        G(pr, "C", "defaults", {}, mod_family, None, 1)
    # k=2 inside the brace family (two cooperating options) on multi-line-condition shapes and plain ones
    for pr in (p2ml[::12] + p1[::8] if quick else p2ml[::2] + p1):
        G(pr, "C", "defaults", {}, brace_family, brace_family, 2)
    units = [u for u in progsets.units("C") if u[0] in UNITS]
    for pr in units:
        G(pr, "C", "defaults", {}, mod_family, None, 1)
        if not quick:
            G(pr, "C", "defaults", {}, paren_int_family, paren_int_family, 2)
            G(pr, "C", "defaults", {}, mod_family, nlsp_family, 2)
    for pr in [u for u in progsets.units("CPP") if u[0] in ("decl:class", "decl:trycatch", "decl:enumclass", "decl:rangefor", "decl:lambda", "decl:ns", "decl:returns", "decl:enum")]:
        G(pr, "CPP", "defaults", {}, mod_family, None, 1)
    # language-specific options (import/using sorting, using() braces, Pawn semicolons, OC property sorting) and the constructs the
    # secondary options need; then the same sweeps from PRIMED bases, in which a primary option is already on, so that the
    # secondary ones (sort keys, weights, prefer-int-on-left, force-c-comment, brace_nl) have something to act on
    lang_units = [(lg, u) for lg in langunits.UNITS for u in langunits.units(lg)]
    # body-less declarations ('struct S;' is where a semicolon pass has to tell a needed ';' from an extra one) next to bodies
    # closed by '};' - in every language that has the keywords
    # (two units: a pass that goes wrong on one of the forms usually gets the whole file refused, which is not C04's subject)
    fwd = "struct Opaque;\nunion Blob;\nenum Mode;\nint use(Opaque *o, Mode m);\nint after_fwd;\n"
    bodies = "struct WithBody { int a; };\nenum Listed { LA, LB };\nunion U2 { int i; char c; };\nint after_bodies;\n"
    for lg in ("C", "CPP", "D", "CS", "VALA", "OC"):
        lang_units.append((lg, ("lang:fwd-decls", ("class Fwd;\n" if lg in ("CPP", "D") else "").encode() + fwd.encode(), {"ctx": "lang"})))
        lang_units.append((lg, ("lang:body-decls", bodies.encode(), {"ctx": "lang"})))
    for lg, pr in lang_units:
        G(pr, lg, "defaults", {}, mod_family, None, 1)
        if not quick:
            G(pr, lg, "defaults", {}, mod_family, mod_family, 2)
    prim_units = lang_units + [("C", u) for u in units if u[0] in ("pp:includes", "decl:intspell", "decl:longints", "pp:if-inside")]
    for bn, base in PRIMED.items():
        for lg, pr in prim_units:
            G(pr, lg, bn, base, mod_family, None, 1)
        for pr in (p1[::16] if quick else p1[::2]):
            G(pr, "C", bn, base, mod_family, None, 1)
    # profiles as they are (k=0): mod options of the shipped styles
    for pn, p in P.items():
        for pr in (p2[::8] if quick else p2[::2]) + units:
            G(pr, "C", pn, p)
    ctx.log("groups: %d" % len(groups))
    groups.sort(key=lambda g: -(g.k * 10 + (1 if g.fam1 else 0)))
    samples = []

    def on_result(res):
        if len(samples) < 5 and res["runs"] > 1:
            samples.append({"program": res["prog"], "base": res["base"], "runs": res["runs"], "read_set": res["readset"]})

    with run.Pool() as pool:
        a = bee.run_group(groups[-1]); b = bee.run_group(groups[-1])
        if (a["runs"], a["outcomes"], len(a["violations"])) != (b["runs"], b["outcomes"], len(b["violations"])):
            print("HARNESS-NONDETERMINISM"); raise SystemExit(2)
        agg = bee.drive(ctx, groups, pool, on_result=on_result)
    cov = {
        "evaluations": agg["runs"], "distinct_nontrivial": agg["nontrivial"],
        "states": agg["groups"], "transitions": agg["runs"], "traces_validated_against_impl": agg["runs"],
        "rule": "statement shapes (depth 1 in 4 renderings incl. multi-line conditions, depth 2), return/semicolon/int-spelling/enum/"
                "include/infinite-loop/#if units x every mod_* option at every value (k=1), all pairs inside the brace family on "
                "multi-line-condition shapes (k=2)%s, shipped profiles (k=0); oracle: after deleting the token kinds that the ENABLED "
                "options are documented to add/remove, input and output token sequences are equal (multisets for sort/move options), "
                "brackets stay balanced and are added/removed in pairs" % ("" if quick else ", paren/int/sort pairs, mod x nl/sp pairs"),
        "samples": samples or [{"note": "none"}], "groups": agg["groups"],
        "single_deviations_pruned_by_read_set": agg["pruned"], "refused_runs": agg["refused"], "timeouts": agg["timeouts"],
        "distinct_outcomes": agg["outcomes"], "k_completed": 2,
        "mod_options_total": len([n for n in bee.reg() if n.startswith("mod_")]),
        "mod_options_fired": {k: v for k, v in sorted(agg["fired"].items()) if k.startswith("mod_")},
        "mod_options_never_fired": sorted(n for n in bee.reg() if n.startswith("mod_") and not agg["fired"].get(n)),
    }
    return {"level": LEVEL, "coverage": cov,
            "assumptions": ["permitted-token table per option written from the option descriptions (PERMIT in mc/props/c04.py)",
                            "C, C++, Objective-C and Java are judged with the independent lexer; C#, D, Vala and Pawn units with uncrustify's own raw tokeniser "
                            "applied to input and output (a token lost by the tokeniser itself in both would not show; C02 covers that)"]}


def replay(path):
    import json
    print(open(os.path.join(path, "witness.json")).read())
    return 0
