"""C10  Output depends only on (bytes, language, configuration, file name).

For every (input, profile): the formatted bytes are collected from ALL delivery modes
   stdin+--assume | stdin+-l | -f | -f -o OUT | -f X -o X | FILE (default suffix) | --prefix | --suffix | -F list | -F - |
   second entry of a -F list | second positional file | second file of --no-backup (a guarded CRLF header goes first) |
   --replace | --replace --no-backup | --no-backup
x language given by -l vs. taken from the extension
x ALL subsets of the observer options {-p FILE, -L A, -s, -q, --dump-steps PFX, --debug-csv-format} the mode accepts
  (-p / --dump-steps only with -f)
and compared with the reference run `-f FILE -l LANG -c CFG -q` (stdout); the set of files created must be exactly what
the mode documents.  Environment deviations (one at a time) for three modes: cwd elsewhere with absolute / relative
paths, LC_ALL in {unset, C, C.UTF-8, POSIX, de_DE.UTF-8}, HOME with a decoy .uncrustify.cfg, UNCRUSTIFY_CONFIG pointing at a
decoy while -c is given, ASLR off (setarch -R), and a repeated run.
"""
import itertools, os, shutil, subprocess

from .. import bee, build, configs, run
from ..universe import cgen, skel

LEVEL = "model_checking"
EXT = {"C": "c", "CPP": "cpp", "OC": "m", "JAVA": "java", "CS": "cs", "D": "d", "VALA": "vala", "PAWN": "pawn", "ECMA": "es"}
OBS = ["-p", "-L", "-s", "-q", "--dump-steps", "--debug-csv-format"]
DECOY = "indent_columns = 7\nindent_with_tabs = 0\nsp_arith = remove\nnl_fdef_brace = remove\n"


def obs_args(sub):
    a = []
    for o in sub:
        if o == "-p":
            a += ["-p", "parsed.txt"]
        elif o == "-L":
            a += ["-L", "A"]
        elif o == "--dump-steps":
            a += ["--dump-steps", "steps"]
        else:
            a.append(o)
    return a


def obs_file(name):
    return name.startswith("parsed.txt") or name.startswith("steps_")


def snapshot(d):
    out = {}
    for root, dirs, files in os.walk(d):
        for f in files:
            p = os.path.join(root, f)
            out[os.path.relpath(p, d)] = open(p, "rb").read()
    return out


def run_mode(mode, d, cfgp, fname, src, lang, by_l, obs, env=None, cwd=None, abspath=False, wrap=()):
    """-> (rc, formatted bytes or None, extra files dict, input_after)"""
    fpath = os.path.join(d, fname)
    open(fpath, "wb").write(src)
    farg = fpath if abspath else fname
    B = build.binary("hooks")
    argv = list(wrap) + [B, "-c", cfgp]
    if by_l:
        argv += ["-l", lang]
    argv += obs_args(obs)
    stdin = b""
    outloc = None
    if mode == "stdin-assume":
        argv += ["--assume", farg]; stdin = src; outloc = "stdout"
        if by_l is False and False:
            pass
    elif mode == "stdin-l":
        stdin = src; outloc = "stdout"
        if not by_l:
            argv += ["-l", lang]
    elif mode == "-f":
        argv += ["-f", farg]; outloc = "stdout"
    elif mode == "-f-o":
        argv += ["-f", farg, "-o", os.path.join(d, "OUT") if abspath else "OUT"]; outloc = "OUT"
    elif mode == "-f-o-same":
        argv += ["-f", farg, "-o", farg]; outloc = fname
    elif mode == "positional":
        argv += [farg]; outloc = fname + ".uncrustify"
    elif mode == "prefix":
        argv += ["--prefix", "pfx", farg]; outloc = os.path.join("pfx", farg.lstrip("/")) if abspath else os.path.join("pfx", fname)
    elif mode == "suffix":
        argv += ["--suffix", ".out", farg]; outloc = fname + ".out"
    elif mode == "-F":
        open(os.path.join(d, "list.txt"), "w").write(farg + "\n")
        argv += ["-F", "list.txt"]; outloc = fname + ".uncrustify"
    elif mode == "-F-":
        stdin = (farg + "\n").encode()
        argv += ["-F", "-"]; outloc = fname + ".uncrustify"
    elif mode in ("-F-after", "positional-after", "no-backup-after"):
        # the file is the SECOND one of the invocation: another file (a guarded header with CRLF line ends and no final
        # newline after its last directive) is formatted first by the same process
        dname = "decoy." + fname.split(".")[-1]
        open(os.path.join(d, dname), "wb").write(DECOY_SRC)
        darg = os.path.join(d, dname) if abspath else dname
        if mode == "-F-after":
            open(os.path.join(d, "list.txt"), "w").write(darg + "\n" + farg + "\n")
            argv += ["-F", "list.txt"]; outloc = fname + ".uncrustify"
        elif mode == "positional-after":
            argv += [darg, farg]; outloc = fname + ".uncrustify"
        else:
            argv += ["--no-backup", darg, farg]; outloc = fname
    elif mode == "replace":
        argv += ["--replace", farg]; outloc = fname
    elif mode == "replace-no-backup":
        argv += ["--replace", "--no-backup", farg]; outloc = fname
    elif mode == "no-backup":
        argv += ["--no-backup", farg]; outloc = fname
    r = run.run_argv(argv, stdin=stdin, env=env, cwd=cwd or d, timeout=20)
    snap = snapshot(d)
    if outloc == "stdout":
        data = r.out
    else:
        data = snap.get(outloc)
    return r, data, snap, outloc


DECOY_SRC = b"#ifndef DECOY_H\r\n#define DECOY_H\r\nint decoy_value;\r\n/* INDENT-ish */\r\n#endif"

EXPECTED_EXTRA = {
    "-F-after": {"list.txt", "{f}.uncrustify", "decoy.{e}", "decoy.{e}.uncrustify"},
    "positional-after": {"{f}.uncrustify", "decoy.{e}", "decoy.{e}.uncrustify"}, "no-backup-after": {"decoy.{e}"},
    "stdin-assume": set(), "stdin-l": set(), "-f": set(), "-f-o": {"OUT"}, "-f-o-same": set(), "positional": {"{f}.uncrustify"},
    "prefix": {"pfx/{f}"}, "suffix": {"{f}.out"}, "-F": {"list.txt", "{f}.uncrustify"}, "-F-": {"{f}.uncrustify"},
    "replace": {"{f}.unc-backup~", "{f}.unc-backup.md5~"}, "replace-no-backup": set(), "no-backup": set(),
}
FMODES = ("-f", "-f-o", "-f-o-same")
ALLMODES = list(EXPECTED_EXTRA)
INPLACE = ("-f-o-same", "replace", "replace-no-backup", "no-backup", "no-backup-after")
AFTER = ("-F-after", "positional-after", "no-backup-after")


def job(j):
    name, lang, src, pname, settings, quick = j
    res = {"id": name + "/" + pname, "runs": 0, "nontrivial": 0, "cases": 0, "viol": [], "modes": 0}
    root = run.fresh_dir()
    fname = "src." + EXT[lang]
    try:
        cfgp = os.path.join(root, "the.cfg")
        open(cfgp, "w").write(configs.text(settings) or "# defaults\n")
        dref = os.path.join(root, "ref"); os.mkdir(dref)
        open(os.path.join(dref, fname), "wb").write(src)
        ref = run.run_argv([build.binary("hooks"), "-c", cfgp, "-l", lang, "-q", "-f", fname], cwd=dref); res["runs"] += 1
        if ref.rc != 0:
            return res
        REF = ref.out
        if REF != src:
            res["nontrivial"] = 1
        n = 0

        def check(mode, by_l, obs, env=None, cwdmode=None, wrap=(), label=""):
            nonlocal n
            n += 1
            d = os.path.join(root, "m%d" % n); os.mkdir(d)
            cwd = None; ab = False
            if cwdmode == "elsewhere-abs":
                cwd = root; ab = True
            r, data, snap, outloc = run_mode(mode, d, cfgp, fname, src, lang, by_l, obs, env=env, cwd=cwd, abspath=ab, wrap=wrap)
            res["runs"] += 1; res["cases"] += 1
            w0 = {"mode": mode, "lang_by": "-l" if by_l else "extension", "observers": " ".join(obs), "env": label, "lang": lang, "profile": pname}
            files = {"input": src, "config.cfg": configs.text(settings), "lang": lang, "stderr": r.err[-1500:], "expected": REF, "output": data or b""}
            if r.rc != 0 or r.timeout:
                res["viol"].append((dict(w0, clause="mode-refused-what-the-reference-formats", status=r.rc), files))
            elif data != REF:
                res["viol"].append((dict(w0, clause="formatted-bytes-differ-from-reference"), files))
            else:
                want = {x.format(f=fname, e=fname.split(".")[-1]) for x in EXPECTED_EXTRA[mode]} | {fname}
                if mode in ("replace", "-f-o-same"):
                    # the backup pair is written before formatting starts, whether or not the text changes
                    want = {fname, fname + ".unc-backup~", fname + ".unc-backup.md5~"}
                if ab and mode == "prefix":
                    want = None
                extra = {k for k in snap if not obs_file(os.path.basename(k))}
                if want is not None and extra != want:
                    res["viol"].append((dict(w0, clause="unexpected-set-of-files", got=",".join(sorted(extra)), want=",".join(sorted(want))), files))
                elif mode not in INPLACE and snap.get(fname) != src:
                    res["viol"].append((dict(w0, clause="input-file-modified"), files))
                elif mode in ("replace", "-f-o-same") and snap.get(fname + ".unc-backup~") != src:
                    res["viol"].append((dict(w0, clause="backup-is-not-the-original"), files))
            shutil.rmtree(d, True)

        # the second-file modes need a decoy the configuration accepts on its own
        dd = os.path.join(root, "dref"); os.mkdir(dd)
        open(os.path.join(dd, "decoy." + EXT[lang]), "wb").write(DECOY_SRC)
        dref_ok = run.run_argv([build.binary("hooks"), "-c", cfgp, "-l", lang, "-q", "-f", "decoy." + EXT[lang]], cwd=dd).rc == 0; res["runs"] += 1
        for mode in ALLMODES:
            if mode in AFTER and not dref_ok:
                continue
            allowed = OBS if mode in FMODES else [o for o in OBS if o not in ("-p", "--dump-steps")]
            subsets = [s for k in range(len(allowed) + 1) for s in itertools.combinations(allowed, k)
                       if "--debug-csv-format" not in s or "-p" in s]      # the CLI accepts --debug-csv-format only together with -p
            if quick and mode not in ("-f", "positional", "replace", "stdin-assume"):
                subsets = [s for s in subsets if len(s) <= 1 or len(s) == len(allowed)]
            for by_l in (True, False):
                if mode == "stdin-l" and not by_l:
                    continue
                for sub in subsets:
                    check(mode, by_l, sub)
            res["modes"] += 1
        # environment deviations, one at a time
        decoyhome = os.path.join(root, "home"); os.mkdir(decoyhome)
        open(os.path.join(decoyhome, ".uncrustify.cfg"), "w").write(DECOY)
        decoycfg = os.path.join(root, "decoy.cfg"); open(decoycfg, "w").write(DECOY)
        envs = [("LC_ALL=unset", {"LC_ALL": ""}), ("LC_ALL=C.UTF-8", {"LC_ALL": "C.UTF-8"}), ("LC_ALL=POSIX", {"LC_ALL": "POSIX"}),
                ("LC_ALL=de_DE.UTF-8", {"LC_ALL": "de_DE.UTF-8", "LANG": "de_DE.UTF-8"}), ("HOME=decoy", {"HOME": decoyhome}),
                ("UNCRUSTIFY_CONFIG=decoy", {"UNCRUSTIFY_CONFIG": decoycfg}), ("TZ=Asia/Tokyo", {"TZ": "Asia/Tokyo"}),
                ("COLUMNS=20", {"COLUMNS": "20", "TERM": "dumb"})]
        for mode in ("-f", "positional", "replace", "stdin-assume"):
            for label, e in envs:
                check(mode, True, ("-q",), env=e, label=label)
            check(mode, True, ("-q",), cwdmode="elsewhere-abs", label="cwd=elsewhere,absolute-paths")
            check(mode, True, ("-q",), wrap=("setarch", "x86_64", "-R"), label="ASLR-off")
            check(mode, True, ("-q",), label="again")
            check(mode, False, (), wrap=("setarch", "x86_64", "-R"), label="ASLR-off")
    finally:
        shutil.rmtree(root, True)
    return res


def check(ctx):
    quick = ctx.tier == "quick"
    P = configs.profiles()
    progs = []
    for name, lang, src in skel.all_skeletons():
        progs.append((name, lang, src))
    for n, s in cgen.decl_units("C"):
        if n in ("varblock", "struct", "protos", "strings") or not quick:
            progs.append(("decl-" + n, "C", s))
    for n, s in cgen.pp_units():
        if n in ("includes", "define-multi") or not quick:
            progs.append(("pp-" + n, "C", s))
    if not quick:
        for n, s in cgen.decl_units("CPP"):
            progs.append(("declpp-" + n, "CPP", s))
    progs.append(("wrapped-params", "CPP", b"int process_block(int first, const char *second,\n    unsigned long third_value, bool flag);\n"
                                            b"void g(int a,\n       int b, int c)\n{\n    int r = a +\n            b + c;\n    process_block(r, \"x\",\n                  3, true);\n}\n"))
    from . import c06
    sinks = c06.sink_profiles(bee.reg())
    sortinc = dict(P["ben"]); sortinc.update({"mod_sort_include": "true", "mod_sort_import": "true", "mod_sort_using": "true", "align_right_cmt_span": "3"})
    # kitchen-sink profiles switch (nearly) every pass on, so that a pass whose behaviour depends on an observer has a chance to run
    profs = [("defaults", {}), ("ben+sort", sortinc), ("sink-force-true", sinks["sink-force-true"]), ("sink-add-false-num1", sinks["sink-add-false-num1"])] \
        + ([] if quick else [(n, P[n]) for n in ("linux", "gnu-indent", "msvc", "sun")])
    jobs = [(n, l, s, pn, st, quick) for (n, l, s) in progs for pn, st in profs]
    ctx.log("jobs: %d (programs %d x profiles %d)" % (len(jobs), len(progs), len(profs)))
    agg = {"runs": 0, "nontrivial": 0, "cases": 0}
    with run.Pool() as pool:
        for res in pool.imap(job, jobs, chunksize=1, deadline=ctx.deadline):
            for k in agg:
                agg[k] += res[k]
            for w, files in res["viol"]:
                ctx.rep.violation(w, files, [build.binary("hooks"), "-c", "config.cfg", "-l", files["lang"], "-f", "input"])
        if pool.cut:
            ctx.cut = True
    cov = {
        "evaluations": agg["runs"], "distinct_nontrivial": agg["nontrivial"],
        "states": len(jobs), "transitions": agg["runs"], "traces_validated_against_impl": agg["cases"],
        "rule": "%d programs x %d profiles; per pair: 13 delivery modes x {-l, extension} x all subsets of the observer options the mode accepts%s, "
                "plus 12 one-at-a-time environment deviations x 4 modes; every run compared with the reference run; distinct_nontrivial = "
                "(program, profile) pairs whose formatted text differs from the input" % (len(progs), len(profs), " (quick: subsets of size 0, 1, all for 9 of the modes)" if quick else ""),
        "samples": [{"mode": "replace", "argv": "-c the.cfg -l C -L A -s --replace src.c"}, {"mode": "-F-", "stdin": "src.cpp\\n"},
                    {"env": "HOME=decoy with ~/.uncrustify.cfg while -c is given"}],
        "modes": ALLMODES, "observer_options": OBS, "cases": agg["cases"],
    }
    return {"level": LEVEL, "coverage": cov,
            "assumptions": ["the reference run is `-f FILE -l LANG -c CFG -q` from the file's directory",
                            "uninitialised reads that do not change the output under ASLR on/off are invisible"]}


def replay(path):
    import json
    w = json.load(open(os.path.join(path, "witness.json")))["witness"]
    print(json.dumps(w, indent=1))
    src = open(os.path.join(path, "input"), "rb").read()
    st = configs.parse_cfg(open(os.path.join(path, "config.cfg")).read())
    res = job(("replay", w["lang"], src, w.get("profile", ""), st, False))
    hit = [x[0] for x in res["viol"] if x[0]["mode"] == w["mode"]]
    print("re-evaluated:", hit[:3])
    return 1 if hit else 0
