"""C14  The backup always holds the last text uncrustify did not write itself.

Explicit-state BFS (HE) over histories of
    user(c)            the user writes content c into the file (c over a closed content alphabet)
    run(A) / run(B)    a completed `uncrustify --replace` with profile A / B
    kill(cfg, k)       a `--replace` run killed (SIGKILL) at entry of its k-th relevant system call
with the real binary as transition function and a small reference model of the
documented protocol (src/backup.h) compared after every transition.

state = (bytes of FILE, of FILE.unc-backup~, of FILE.unc-backup.md5~, of FILE.uncrustify,
         model L, model P)          -- everything a later uncrustify process can observe, plus the model.
A state is re-materialised byte-exactly in a fresh directory before each transition.
"""
import hashlib, json, os, shutil, subprocess

from .. import build, run

LEVEL = "model_checking"
NAME = "a.c"
ANY = b"\x00<ANY>"          # model value: backup content not determined (after a kill that tore it)

CFG = {
    "A": "",                                                    # built-in defaults
    "B": "indent_with_tabs=0\nindent_columns=3\nsp_assign=remove\n",
}
U = [b"void f( void ){\nint  a=1 ;\n}\n", b"int g ( int x ) { return x+1 ; }\n"]

SFX_B, SFX_M, SFX_T = ".unc-backup~", ".unc-backup.md5~", ".uncrustify"


def md5line(b):
    return (hashlib.md5(b).hexdigest() + "  " + NAME + "\n").encode()


def materialise(d, st):
    for sfx, data in zip(("", SFX_B, SFX_M, SFX_T), st[:4]):
        if data is not None:
            with open(os.path.join(d, NAME + sfx), "wb") as f:
                f.write(data)


def observe(d):
    out = []
    for sfx in ("", SFX_B, SFX_M, SFX_T):
        p = os.path.join(d, NAME + sfx)
        out.append(open(p, "rb").read() if os.path.exists(p) else None)
    extra = sorted(set(os.listdir(d)) - {NAME + s for s in ("", SFX_B, SFX_M, SFX_T)} - {"trace", "cfg"})
    return tuple(out), extra


def step(args):
    """Worker: apply one action to one state. Returns (state, action, new fs, rc, trace, extra files)."""
    st, act = args
    d = run.fresh_dir()
    try:
        materialise(d, st)
        if act[0] == "user":
            with open(os.path.join(d, NAME), "wb") as f:
                f.write(act[1])
            fs, extra = observe(d)
            return st, act, fs, 0, None, extra
        cfgp = run.cfg_path(CFG[act[1]])
        argv = [build.binary("hooks"), "-c", cfgp, "-q", "--replace", os.path.join(d, NAME)]
        trace = None
        if act[0] == "kill" or act[0] == "trace":
            tp = os.path.join(d, "trace")
            pre = [os.path.join(build.BUILD_ROOT, "sysfi"), "--dir", d, "--trace", tp]
            if act[0] == "kill":
                pre += ["--act", "%d:kill" % act[2]]
            r = run.run_argv(pre + ["--"] + argv, cwd=d)
            trace = open(tp).read() if os.path.exists(tp) else ""
            if os.path.exists(tp):
                os.unlink(tp)
        else:
            r = run.run_argv(argv, cwd=d)
        fs, extra = observe(d)
        return st, act, fs, r.rc, trace, extra
    finally:
        shutil.rmtree(d, True)


def model_step(st, act, fs, fmt):
    """Reference model of the documented protocol (src/backup.h).
    st = (file, backup, md5, tmp, L, P, C):
      L  the bytes uncrustify last left in the file (None: never)
      P  the protected text = what the file held before the earliest run since the last user edit
      C  'claim': a text whose md5 a killed run recorded although it never renamed it into place.
         A user write that produces exactly L or C is not an edit: no md5-based protocol can tell it
         from uncrustify's own output (this identification is the documented design).
    Returns (L', P', C', expectation)."""
    file0, L, P, C = st[0], st[4], st[5], st[6]
    if act[0] == "user":
        return L, P, C, None
    new = fmt[(act[1], file0)]
    user_text = file0 != L and file0 != C
    if act[0] == "run":
        if user_text:
            P = file0
        return new, P, None, ("complete", new)
    # killed run
    if fs[0] != file0:                       # the rename happened: as a completed run
        if user_text:
            P = file0
        return fs[0], P, None, ("killed-after-rename", fs[0])
    if user_text and fs[1] != st[1]:         # backup touched, file untouched
        P = file0 if fs[1] == file0 else ANY  # copy complete / torn (re-derived by the next completed run)
    if fs[2] != st[2]:                       # md5 file touched
        C = new if fs[2] == md5line(new) else None
    return L, P, C, ("killed-before-rename", None)


def verdict(st, act, fs, rc, extra, L2, P2, exp, fmt):
    """Compare the observed successor with the reference model; -> None or (clause, detail)"""
    bad = None
    if extra:
        bad = ("stray-files", ",".join(extra))
    elif act[0] == "run":
        if rc != 0:
            bad = ("run-exit", rc)
        elif fs[0] != exp[1]:
            bad = ("file-not-formatted", None)
        elif fs[3] is not None:
            bad = ("temp-file-left", None)
        elif P2 != ANY and fs[1] != P2:
            bad = ("backup-not-protected-text", None)
        elif fs[2] != md5line(L2):
            bad = ("md5-not-of-last-output", None)
    elif act[0] == "kill":
        if rc != 137:
            bad = ("kill-did-not-kill", rc)
        elif fs[0] not in (st[0], fmt[(act[1], st[0])]):
            bad = ("file-torn", None)
        elif fs[0] != st[0] and P2 != ANY and fs[1] != P2:
            bad = ("backup-not-protected-text", None)
        elif fs[0] == st[0] and fs[1] != st[1] and (st[0] == st[4] or st[0] == st[6]):
            # the killed run rewrote the backup although the file held uncrustify's own output
            bad = ("backup-not-protected-text", None)
    elif act[0] == "user" and fs[1:4] != st[1:4]:
        bad = ("harness", None)
    return bad


def length_sweep(ctx, pool, quick, tab):
    """Every file length modulo the md5 block size (quick: one block, thorough: three blocks): the history
    user(c_n); run(A); run(A); user(e_n); run(A) where e_n differs from uncrustify's output in its LAST byte-but-two only and has
    the same length.  The digest code branches on the length (padding fits / does not fit into the last block), the protocol
    depends on the digest telling own output from user text: the md5 file must be the md5 of the file after every run and
    the same-length edit must reach the backup."""
    base = b"int sweep_variable_with_a_long_name = 1;\n"
    n_len = 64 if quick else 192
    jobs, fmt = [], {}
    cs = []
    for n in range(n_len):
        c = b"/*" + b"x" * n + b"*/\n" + base
        r = run.unc(c, None, "C")
        if not r.ok():
            raise SystemExit("HARNESS-ERROR: reference formatting failed (sweep)")
        out = r.out
        e = out[:-3] + b"2;\n"
        r2 = run.unc(e, None, "C")
        if not r2.ok() or r2.out != e or len(e) != len(out) or e == out:
            raise SystemExit("HARNESS-ERROR: sweep edit is not a same-length fixed point")
        fmt[("A", c)] = out; fmt[("A", out)] = run.unc(out, None, "C").out; fmt[("A", e)] = e
        cs.append((c, out, e))
    residues = set()
    transitions = 0
    hist_actions = lambda c, e: [("run", "A"), ("run", "A"), ("user", e), ("run", "A"), ("run", "A")]
    # the five steps of every history are run one after the other (each needs the state before it); histories run in parallel
    states = {i: (cs[i][0], None, None, None, None, None, None) for i in range(len(cs))}
    hists = {i: ["user(sweep-%d)" % i] for i in range(len(cs))}
    dead = set()
    for k in range(5):
        batch = [(states[i], hist_actions(cs[i][0], cs[i][2])[k]) for i in sorted(states) if i not in dead]
        idx = [i for i in sorted(states) if i not in dead]
        for i, (st, act, fs, rc, trace, extra) in zip(idx, pool.imap(step, batch, chunksize=2)):
            transitions += 1
            L2, P2, C2, exp = model_step(st, act, fs, fmt)
            bad = verdict(st, act, fs, rc, extra, L2, P2, exp, fmt)
            hists[i].append(describe(act, tab) if act[0] != "user" else "user(same-length edit of the last statement)")
            if act[0] == "run":
                residues.add(len(fs[0]) % 64 if fs[0] is not None else -1)
            if bad:
                w = {"clause": bad[0], "action": act[0], "cfg": "A" if act[0] != "user" else "", "family": "length-sweep",
                     "length_mod_64_class": "56..63" if (len(st[0]) % 64) >= 56 else "0..55"}
                files = {"history.json": json.dumps(hists[i], indent=1), "file_before": st[0], "file_after": fs[0] or b"",
                         "backup_after": fs[1] or b"", "md5_after": fs[2] or b"", "cfgA.cfg": CFG["A"]}
                ctx.rep.violation(w, files, note="length sweep: comment padded by %d; failing step %d of the history" % (i, k + 1))
                dead.add(i)
                continue
            states[i] = fs + (L2, P2, C2)
    return {"length_sweep_histories": len(cs), "length_sweep_transitions": transitions,
            "length_sweep_output_length_residues_mod_64": len(residues)}


def md5_kind(st):
    m, file0, L, C = st[2], st[0], st[4], st[6]
    if m is None:
        return "none"
    if m == md5line(file0):
        return "of-file"
    if L is not None and m == md5line(L):
        return "of-last-output"
    if C is not None and m == md5line(C):
        return "of-unrenamed-output"
    if len(m) < 32 + 2 + len(NAME) + 1:
        return "torn"
    return "of-other-text"


def sid(tab, b):
    if b is None:
        return None
    if b == ANY:
        return "ANY"
    if b not in tab:
        tab[b] = "c%d" % len(tab)
    return tab[b]


def check(ctx):
    quick = ctx.tier == "quick"
    subprocess.run(["gcc", "-O2", "-w", "-o", os.path.join(build.BUILD_ROOT, "sysfi"),
                    os.path.join(os.path.dirname(os.path.dirname(__file__)), "sysfi.c")], check=True)
    max_depth = 6 if quick else 64
    kill_depth = 3 if quick else 64          # kills are explored from states up to this depth
    with run.Pool() as pool:
        # 1. content alphabet: closure of U under F_A, F_B (reference: plain -f runs to stdout)
        contents = list(U)
        fmt = {}
        i = 0
        while i < len(contents):
            c = contents[i]; i += 1
            for k, cfg in CFG.items():
                r = run.unc(c, cfg or None, "C")
                if not r.ok():
                    raise SystemExit("HARNESS-ERROR: reference formatting failed")
                fmt[(k, c)] = r.out
                if r.out not in contents:
                    contents.append(r.out)
        ctx.log("content alphabet closed: %d contents" % len(contents))
        # replay self-test: same transition twice gives the same observation
        s0 = (U[0], None, None, None, None, None, None)
        a = step((s0, ("run", "A")))[2:4]; b = step((s0, ("run", "A")))[2:4]
        if a != b:
            print("HARNESS-NONDETERMINISM"); raise SystemExit(2)

        tab = {}
        init = [(u, None, None, None, None, None, None) for u in U]
        seen = {s: (0, []) for s in init}            # state -> (depth, shortest history)
        frontier = list(init)
        transitions = 0
        kills = 0
        depth = 0
        samples = []
        outcomes = set()
        while frontier and depth < max_depth and not ctx.expired():
            depth += 1
            # actions from every frontier state
            jobs = []
            for st in frontier:
                for c in contents:
                    jobs.append((st, ("user", c)))
                for k in CFG:
                    jobs.append((st, ("run", k)))
            # kill points: first record the syscall trace of the complete run from this state
            if depth <= kill_depth:
                tr_jobs = [(st, ("trace", k)) for st in frontier for k in CFG]
                for st, act, fs, rc, trace, extra in pool.imap(step, tr_jobs, chunksize=2):
                    n = len([l for l in trace.splitlines() if l.strip()])
                    for kk in range(n):
                        jobs.append((st, ("kill", act[1], kk)))
            nxt = []
            for st, act, fs, rc, trace, extra in pool.imap(step, jobs, chunksize=4):
                transitions += 1
                if act[0] == "kill":
                    kills += 1
                hist = seen[st][1] + [describe(act, tab)]
                L2, P2, C2, exp = model_step(st, act, fs, fmt)
                bad = verdict(st, act, fs, rc, extra, L2, P2, exp, fmt)
                outcomes.add((act[0], bad[0] if bad else "ok"))
                if bad:
                    w = {"clause": bad[0], "action": act[0], "cfg": act[1] if act[0] != "user" else "",
                         "file_is_own_output": str(st[0] == st[4]), "md5_before": md5_kind(st),
                         "temp_before": str(st[3] is not None)}
                    if act[0] == "kill":
                        w["kill_syscall"] = kill_name(trace)
                    files = {"history.json": json.dumps(hist, indent=1),
                             "state_before.json": json.dumps([sid(tab, x) for x in st]),
                             "state_after.json": json.dumps([sid(tab, x) for x in fs]),
                             "contents.json": json.dumps({v: k.decode("latin-1") for k, v in tab.items()}, indent=1),
                             "cfgA.cfg": CFG["A"], "cfgB.cfg": CFG["B"]}
                    is_new = ctx.rep.violation(w, files, note="history (shortest to this state) + failing action; replay: ./check C14 --replay <dir>")
                    if is_new:
                        continue          # error state: not expanded (no cascades of the same defect)
                    if bad[0].startswith("backup-not-protected-text"):
                        P2 = fs[1]        # known finding: resynchronise the model and keep exploring
                ns = fs + (L2, P2, C2)
                if ns not in seen:
                    seen[ns] = (depth, hist)
                    nxt.append(ns)
                    if len(samples) < 6 and len(hist) == depth and depth >= 2:
                        samples.append({"history": hist, "state": [sid(tab, x) for x in ns]})
            if pool.cut:
                ctx.cut = True
            frontier = nxt
            ctx.log("depth %d: states=%d transitions=%d (kills=%d) new=%d" % (depth, len(seen), transitions, kills, len(nxt)))
        closed = not frontier
        sweep = length_sweep(ctx, pool, quick, tab)
        transitions += sweep["length_sweep_transitions"]
        cov = {
            "states": len(seen), "transitions": transitions,
            "traces_validated_against_impl": transitions,
            "evaluations": transitions, "distinct_nontrivial": len(seen),
            "rule": "BFS over histories of user(c)/run(A)/run(B)/kill(cfg,k); every transition is executed by the real "
                    "binary from a byte-exact re-materialisation of the state and compared with the reference model; "
                    "a state is distinct by the bytes of file, backup, md5 file, temp file and the model variables (L,P)",
            "samples": samples or [{"history": [], "state": [sid(tab, x) for x in init[0]]}],
            "depth_completed": depth, "closure_reached": closed,
            "kill_transitions": kills, "kill_depth": kill_depth,
            "content_alphabet": len(contents),
            "distinct_outcomes": sorted("%s:%s" % o for o in outcomes),
            "exhaustive": closed or depth >= max_depth,
        }
        cov.update(sweep)
    return {"level": LEVEL, "coverage": cov,
            "assumptions": ["an uncrustify process observes nothing of the directory beyond the four files' bytes "
                            "(no --mtime, no clock): equal canonical states have equal futures",
                            "crash = SIGKILL at a system-call boundary; power-loss (unsynced data) not modelled",
                            "md5 collision-freeness on the content alphabet"]}


def describe(act, tab):
    if act[0] == "user":
        return "user(%s)" % sid(tab, act[1])
    if act[0] == "run":
        return "run(%s)" % act[1]
    return "kill(%s,%d)" % (act[1], act[2])


def kill_name(trace):
    last = [l for l in (trace or "").splitlines() if l.strip()]
    if not last:
        return "?"
    f = last[-1].split("\t")
    p = f[2]
    role = "file"
    for sfx, nm in ((SFX_M, "md5"), (SFX_B, "backup"), (SFX_T, "temp")):
        if sfx in p:
            role = nm
    if " -> " in p:
        role = "temp->file"
    return "%s:%s" % (f[1], role)




def replay(path):
    w = json.load(open(os.path.join(path, "witness.json")))
    print(json.dumps(w, indent=1))
    print(open(os.path.join(path, "history.json")).read())
    return 0
