"""C12  --check and --if-changed tell the truth and write nothing they should not.

Inputs: for each program u: u, f = F(u), every single-byte perturbation of f at every position, every PAIR of
perturbations inside the last 16 bytes, f without final newline, empty file, a lone newline.  Batches: all
sequences of length <= 3 over {a PASS file, a FAIL file, the empty file, an unreadable path}.  Reference: a plain
`-f` run.  HE accounting: a state is a (multiset-free) batch prefix, a transition one checked file.
"""
import hashlib, itertools, os, shutil

from .. import build, run
from ..universe import cgen

LEVEL = "model_checking"

PROGRAMS = [
    ("tiny", b"int  a=1;\nint b ;\n"),
    ("func", b"int f(int x){return x+1;}\n"),
    ("utf8", "/* éééééééé */\nint  k=  1;\n".encode("utf-8")),
    ("bom", b"\xef\xbb\xbfint  z ;\n"),
    ("crlf", b"int  q;\r\nint r ;\r\n"),
    ("cmt", b"// c\nvoid g( void ) { }\n"),
    ("ptr", b"int* p;\nchar* q = 0;\n"),      # under the 'move' configuration the formatted text has the SAME SIZE but other bytes
]
CFGS = {"defaults": "", "sp": "indent_with_tabs=0\nindent_columns=3\nsp_assign=remove\n",
        "move": "indent_with_tabs=0\nsp_before_ptr_star=force\nsp_after_ptr_star=remove\n"}


def perturb1(f):
    out = []
    n = len(f)
    for i in range(n + 1):
        for ins in (b" ", b"\n", b"x"):
            out.append(f[:i] + ins + f[i:])
        if i < n:
            out.append(f[:i] + f[i + 1:])
            for rep in (b" ", b"x"):
                if f[i:i + 1] != rep:
                    out.append(f[:i] + rep + f[i + 1:])
    return out


def perturb2_tail(f, tail=16):
    """all pairs of single edits whose positions both lie in the last `tail` bytes"""
    n = len(f)
    lo = max(0, n - tail)
    head, t = f[:lo], f[lo:]
    out = set()
    for a in perturb1(t):
        for b in perturb1(a)[-(6 * (tail + 3)):] if False else perturb1(a):
            out.add(head + b)
    return sorted(out)


def snapshot(d):
    s = {}
    for root, dirs, files in os.walk(d):
        for fn in files + dirs:
            p = os.path.join(root, fn)
            st = os.lstat(p)
            h = hashlib.sha1(open(p, "rb").read()).hexdigest() if os.path.isfile(p) else "dir"
            s[os.path.relpath(p, d)] = (st.st_size if os.path.isfile(p) else 0, h, st.st_mtime_ns)
    return s


def job_check(job):
    """job = ('check', cfgname, [(name, bytes|None)...], quiet)  -> observations"""
    kind, cfgname, files, quiet = job
    d = run.fresh_dir()
    try:
        for name, data in files:
            if data is not None:
                open(os.path.join(d, name), "wb").write(data)
        before = snapshot(d)
        argv = [build.binary("hooks"), "-c", run.cfg_path(CFGS[cfgname] or None), "-l", "C", "--check"] + (["-q"] if quiet else []) + [n for n, _ in files]
        r = run.run_argv(argv, cwd=d)
        after = snapshot(d)
        return job, r.rc, r.out, r.err, before == after, sorted(set(after) ^ set(before))
    finally:
        shutil.rmtree(d, True)


MODES = ["stdout", "f-o", "suffix", "prefix", "replace-nobackup"]


def job_ifchanged(job):
    """job = ('ifc', cfgname, mode, data) -> (job, rc, produced bytes or None, extra files, input untouched?)"""
    kind, cfgname, mode, data = job
    d = run.fresh_dir()
    try:
        x = os.path.join(d, "x.c")
        open(x, "wb").write(data)
        os.utime(x, ns=(10 ** 18, 10 ** 18))
        base = [build.binary("hooks"), "-c", run.cfg_path(CFGS[cfgname] or None), "-l", "C", "-q", "--if-changed"]
        target = None
        if mode == "stdout":
            argv = base + ["-f", "x.c"]
        elif mode == "f-o":
            argv = base + ["-f", "x.c", "-o", "y.c"]; target = "y.c"
        elif mode == "suffix":
            argv = base + ["--suffix", ".out", "x.c"]; target = "x.c.out"
        elif mode == "prefix":
            argv = base + ["--prefix", "pre", "x.c"]; target = os.path.join("pre", "x.c")
        else:
            argv = base + ["--replace", "--no-backup", "x.c"]; target = "x.c"
        r = run.run_argv(argv, cwd=d)
        files = sorted(os.path.relpath(os.path.join(rt, f), d) for rt, _, fs in os.walk(d) for f in fs)
        produced = None
        if mode == "stdout":
            produced = r.out if r.out else None
        elif mode == "replace-nobackup":
            cur = open(x, "rb").read()
            touched = os.lstat(x).st_mtime_ns != 10 ** 18
            produced = cur if (cur != data or touched) else None
        elif os.path.exists(os.path.join(d, target)):
            produced = open(os.path.join(d, target), "rb").read()
        extra = [f for f in files if f not in ("x.c", target)]
        src_ok = mode == "replace-nobackup" or open(x, "rb").read() == data
        return job, r.rc, produced, extra, src_ok
    finally:
        shutil.rmtree(d, True)


def ref_job(job):
    cfgname, data = job
    r = run.unc(data, CFGS[cfgname] or None, "C")
    return job, r.rc, r.out


def check(ctx):
    quick = ctx.tier == "quick"
    progs = PROGRAMS if quick else PROGRAMS + [(n, s) for n, s in cgen.pp_units()[:6]] + [(n, s) for n, s in cgen.decl_units("C")[:6]]
    cfgs = list(CFGS)
    evaluations = 0
    transitions = 0
    states = set()
    outcomes = {}
    samples = []
    nontrivial = set()
    with run.Pool() as pool:
        # the input universe
        inputs = {}          # (cfg, bytes) -> class
        for cfgname in cfgs:
            for name, u in progs:
                r = run.unc(u, CFGS[cfgname] or None, "C")
                if r.rc != 0:
                    raise SystemExit("HARNESS-ERROR: C12 program %s refused" % name)
                f = r.out
                inputs.setdefault((cfgname, u), "unformatted:" + name)
                inputs.setdefault((cfgname, f), "formatted:" + name)
                small = f if len(f) <= 200 else f[-200:]
                head = b"" if len(f) <= 200 else f[:-200]
                for x in perturb1(small):
                    inputs.setdefault((cfgname, head + x), "perturb1:" + name)
                if f.endswith(b"\n"):
                    inputs.setdefault((cfgname, f[:-1]), "no-final-newline:" + name)
                if name in ("utf8", "tiny", "bom") or not quick:
                    for x in perturb2_tail(f, 12 if quick else 16):
                        inputs.setdefault((cfgname, x), "perturb2-tail:" + name)
            inputs.setdefault((cfgname, b""), "empty")
            inputs.setdefault((cfgname, b"\n"), "newline")
        keys = [k for k in inputs if b"\x00" not in k[1]]
        ctx.log("inputs: %d" % len(keys))
        ref = {}
        for job, rc, out in pool.imap(ref_job, keys, chunksize=32):
            ref[job] = (rc, out)
            evaluations += 1
        # replay self-test
        t1 = job_check(("check", cfgs[0], [("a.c", keys[0][1])], False))[1:5]
        t2 = job_check(("check", cfgs[0], [("a.c", keys[0][1])], False))[1:5]
        if t1 != t2:
            print("HARNESS-NONDETERMINISM"); raise SystemExit(2)

        def viol(clause, cfgname, data, extra=None, files=None):
            w = {"clause": clause, "cfg": cfgname, "input_class": inputs.get((cfgname, data), "batch").split(":")[0]}
            if extra:
                w.update(extra)
            ctx.rep.violation(w, dict({"input.c": data, "config.cfg": CFGS[cfgname]}, **(files or {})),
                              ["/verif/build/hooks/uncrustify", "-c", "config.cfg", "-l", "C", "--check", "input.c"])

        # 1. single-file --check on every input (with and without -q on a systematic half)
        jobs = []
        for i, (cfgname, data) in enumerate(keys):
            jobs.append(("check", cfgname, [("a.c", data)], False))
            if i % 2 == 0 or not quick:
                jobs.append(("check", cfgname, [("a.c", data)], True))
        for job, rc, out, err, same, changed in pool.imap(job_check, jobs, chunksize=16, deadline=ctx.deadline):
            evaluations += 1; transitions += 1
            cfgname, data, quiet = job[1], job[2][0][1], job[3]
            rrc, rout = ref[(cfgname, data)]
            states.add(("1", inputs[(cfgname, data)].split(":")[0], rrc == 0 and rout == data))
            if rrc != 0:
                exp_ok = False
                if rc == 0:
                    viol("check-exit-0-for-unformattable-file", cfgname, data)
                outcomes["refused"] = outcomes.get("refused", 0) + 1
            else:
                exp_ok = rout == data
                if rout != data:
                    nontrivial.add((cfgname, data))
                if (rc == 0) != exp_ok:
                    viol("check-exit-status-wrong", cfgname, data, {"expected_pass": str(exp_ok), "quiet": str(quiet)},
                         {"formatted": rout})
                npass = out.count(b"PASS:"); nfail = err.count(b"FAIL:")
                if exp_ok and (nfail != 0 or (not quiet and npass != 1) or (quiet and npass != 0)):
                    viol("check-report-inconsistent", cfgname, data, {"quiet": str(quiet)})
                if not exp_ok and (npass != 0 or nfail != 1):
                    viol("check-report-inconsistent", cfgname, data, {"quiet": str(quiet)})
                outcomes["pass" if rc == 0 else "fail"] = outcomes.get("pass" if rc == 0 else "fail", 0) + 1
            if not same:
                viol("check-touched-files", cfgname, data, {"changed": ",".join(changed)})
        # 2. batches: all sequences of length <= 3 over {P, F, E, U}
        for cfgname in cfgs:
            name, u = progs[0]
            f = ref[(cfgname, u)][1]
            kinds = {"P": f, "F": u, "E": b"", "U": None}
            jobs = []
            for n in (1, 2, 3):
                for seq in itertools.product("PFEU", repeat=n):
                    files = [("f%d.c" % i, kinds[k]) for i, k in enumerate(seq)]
                    jobs.append(("check", cfgname, files, False))
            for job, rc, out, err, same, changed in pool.imap(job_check, jobs, chunksize=4):
                evaluations += 1
                seq = "".join({f: "P", u: "F", b"": "E", None: "U"}[d] for _, d in job[2])
                transitions += len(seq)
                for i in range(len(seq)):
                    states.add(("batch", seq[:i + 1]))
                exp0 = all(c in "PE" for c in seq)
                if (rc == 0) != exp0:
                    viol("batch-exit-status-wrong", cfgname, u, {"batch": seq})
                reached = seq.split("U")[0]
                if out.count(b"PASS:") != sum(c in "PE" for c in reached) or err.count(b"FAIL:") != sum(c == "F" for c in reached):
                    viol("batch-report-inconsistent", cfgname, u, {"batch": seq})
                if not same:
                    viol("check-touched-files", cfgname, u, {"batch": seq})
                if len(samples) < 3 and len(seq) == 3:
                    samples.append({"batch": seq, "exit": rc, "pass_lines": out.count(b"PASS:"), "fail_lines": err.count(b"FAIL:")})
        # 3. illegal combinations must be rejected
        for extra in (["-o", "o.c"], ["--replace"], ["--no-backup"], ["--prefix", "p"], ["--suffix", ".s"], ["--if-changed"], ["--mtime"]):
            d = run.fresh_dir()
            open(os.path.join(d, "a.c"), "wb").write(progs[0][1])
            before = snapshot(d)
            argv = [build.binary("hooks"), "-c", "-", "-l", "C", "--check"] + extra + (["-f", "a.c"] if extra[0] == "-o" else ["a.c"])
            r = run.run_argv(argv, cwd=d)
            evaluations += 1
            if r.rc == 0 or snapshot(d) != before:
                viol("check-with-output-option-not-rejected", "defaults", progs[0][1], {"option": extra[0]})
            shutil.rmtree(d, True)
        # 4. --if-changed in every output mode
        jobs = [("ifc", c, m, d) for (c, d) in keys if inputs[(c, d)].split(":")[0] != "perturb2-tail" or not quick for m in MODES]
        if quick:
            jobs = jobs[::3] + [j for j in jobs if inputs[(j[1], j[3])].startswith(("formatted", "unformatted", "empty", "newline", "no-final"))]
        for job, rc, produced, extra, src_ok in pool.imap(job_ifchanged, jobs, chunksize=16, deadline=ctx.deadline):
            evaluations += 1; transitions += 1
            cfgname, mode, data = job[1], job[2], job[3]
            rrc, rout = ref[(cfgname, data)]
            if rrc != 0:
                if produced is not None and mode != "stdout":
                    viol("if-changed-wrote-for-unformattable-file", cfgname, data, {"mode": mode})
                continue
            states.add(("ifc", mode, rout == data))
            if rout == data and produced is not None:
                viol("if-changed-wrote-although-unchanged", cfgname, data, {"mode": mode})
            if rout != data and produced != rout:
                viol("if-changed-did-not-write-formatted-bytes", cfgname, data,
                     {"mode": mode, "wrote": "nothing" if produced is None else "other-bytes"}, {"formatted": rout})
            if extra:
                viol("if-changed-stray-files", cfgname, data, {"mode": mode, "files": ",".join(extra)})
            if not src_ok:
                viol("if-changed-modified-source", cfgname, data, {"mode": mode})
            if rout != data and len(rout) == len(data):
                outcomes["ifc-same-size-different-bytes"] = outcomes.get("ifc-same-size-different-bytes", 0) + 1
            if len(samples) < 6 and rout != data:
                samples.append({"mode": mode, "input": data.decode("latin-1")[:60], "wrote": produced is not None})
        if pool.cut:
            ctx.cut = True
    cov = {
        "states": len(states), "transitions": transitions, "traces_validated_against_impl": transitions,
        "evaluations": evaluations, "distinct_nontrivial": len(nontrivial),
        "rule": "inputs = programs, their formatted versions, every single-byte insert/delete/replace perturbation at every position, "
                "every pair of such edits in the last 12-16 bytes, no-final-newline, empty, newline; --check single (with/without -q), "
                "all batches of length <= 3 over {PASS, FAIL, empty, unreadable}, illegal flag combinations, --if-changed in 5 output modes; "
                "non-trivial = inputs that formatting changes",
        "samples": samples or [{"note": "none"}],
        "inputs": len(keys), "program_names": [n for n, _ in progs], "configs": cfgs, "distinct_outcomes": outcomes,
    }
    return {"level": LEVEL, "coverage": cov,
            "assumptions": ["reference = plain `-f` run to stdout with the same configuration"]}


def replay(path):
    print(open(os.path.join(path, "witness.json")).read())
    return 0
