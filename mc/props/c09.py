"""C09  Encoding is transparent: commutes with transcoding, Unicode round-trips.

 (i)   scalar exhaustion: every Unicode scalar value except NUL / CR / LF (1,112,061 of them; quick: the BMP), packed 512 per
       file, each on a line inside a '//' comment, inside a string literal and (second file set) inside an identifier,
       x {UTF-8, UTF-8+BOM, UTF-16LE+BOM, UTF-16BE+BOM}: the decoded output carries the same scalar at the same place;
       a failing file is bisected to single code points
 (ii)  commutation: programs (skeletons with non-ASCII text in comment / string / identifier, and ASCII-only) x 7 input
       encodings x utf8_bom (4) x utf8_byte (2) x utf8_force (2) x profiles: the output bytes equal
       encode_{out}(T) where T is the decoded output of the reference run (UTF-8, no BOM, same options) and `out`, BOM are
       given by a 12-line reference function of the option values
 (iii) invalid input: all byte pairs (quick: pairs over E19 + all single bytes), all triples / quadruples over E19 inside a
       comment of an already formatted file and as first bytes of the file; lone / swapped surrogates and odd lengths in UTF-16
       with BOM: reproduced byte-wise or refused (non-zero status, nothing on stdout) - never different bytes
"""
import itertools, os

from .. import bee, configs, run
from ..universe import skel

LEVEL = "model_checking"
E19 = [0x00, 0x7F, 0x80, 0x8F, 0x90, 0x9F, 0xA0, 0xBF, 0xC0, 0xC1, 0xC2, 0xDF, 0xE0, 0xED, 0xEF, 0xF0, 0xF4, 0xF5, 0xF8, 0xFC, 0xFE, 0xFF, 0x61]
ENCS = ["utf8", "utf8bom", "utf16le", "utf16be"]
ALLENCS = ENCS + ["utf16le-nobom", "utf16be-nobom"]


def enc_text(cps, e):
    s = "".join(map(chr, cps))
    if e == "ascii" or e == "utf8":
        return s.encode("utf-8", "surrogatepass")
    if e == "utf8bom":
        return b"\xef\xbb\xbf" + s.encode("utf-8", "surrogatepass")
    if e == "utf16le":
        return b"\xff\xfe" + s.encode("utf-16-le", "surrogatepass")
    if e == "utf16be":
        return b"\xfe\xff" + s.encode("utf-16-be", "surrogatepass")
    if e == "utf16le-nobom":
        return s.encode("utf-16-le", "surrogatepass")
    if e == "utf16be-nobom":
        return s.encode("utf-16-be", "surrogatepass")
    raise ValueError(e)


def dec_bytes(b):
    """-> (encoding name, has_bom, code points) by BOM, else UTF-8; None when it does not decode"""
    try:
        if b[:2] == b"\xff\xfe":
            return "utf16le", True, [ord(c) for c in b[2:].decode("utf-16-le")]
        if b[:2] == b"\xfe\xff":
            return "utf16be", True, [ord(c) for c in b[2:].decode("utf-16-be")]
        if b[:3] == b"\xef\xbb\xbf":
            return "utf8", True, [ord(c) for c in b[3:].decode("utf-8")]
        return "utf8", False, [ord(c) for c in b.decode("utf-8")]
    except UnicodeDecodeError:
        return None


def expected_encoding(e_in, ascii_only, utf8_bom, utf8_byte, utf8_force):
    """reference function: (output encoding, BOM?) from the input encoding and the three options"""
    base = {"utf8": "utf8", "utf8bom": "utf8", "utf16le": "utf16le", "utf16be": "utf16be", "utf16le-nobom": "utf16le",
            "utf16be-nobom": "utf16be"}[e_in]
    had_bom = e_in in ("utf8bom", "utf16le", "utf16be")
    if e_in == "utf8" and ascii_only:
        base = "ascii"
    if utf8_force == "true":
        base = "utf8"
    if base == "utf8":
        bom = {"ignore": had_bom, "add": True, "force": True, "remove": False}[utf8_bom]
    elif base in ("utf16le", "utf16be"):
        bom = True
    else:
        bom = had_bom
    return base, bom


def out_bytes(cps, base, bom):
    if base in ("ascii", "utf8"):
        return (b"\xef\xbb\xbf" if bom else b"") + enc_text(cps, "utf8")
    return enc_text(cps, base if bom else base + "-nobom")


# ---------------------------------------------------------------------------
# (i) scalar exhaustion

def scalars(lo, hi):
    return [c for c in range(lo, hi) if not (0xD800 <= c <= 0xDFFF) and c not in (0, 10, 13)]


def pack_lines(chunk, kind):
    lines = []
    for i, c in enumerate(chunk):
        ch = chr(c)
        if kind == "cmtstr":
            lines.append("// a%sb" % ch)
            if c not in (0x22, 0x5C):
                lines.append('const char *s%d = "a%sb";' % (i, ch))
        else:
            lines.append("int a%sb%d;" % (ch, i))
    return "\n".join(lines) + "\n"


def scalar_job(j):
    kind, enc, lo, chunk = j
    text = pack_lines(chunk, kind)
    src = enc_text([ord(c) for c in text], enc)
    res = {"id": "%s/%s/U+%04X" % (kind, enc, lo), "runs": 1, "nontrivial": 0, "viol": [], "refused": 0}
    r = run.unc(src, None, "C")
    good = r.rc == 0 and not r.timeout and r.out == src
    if r.rc == 0 and not r.timeout:
        res["nontrivial"] = 1
        res["scalars_ok"] = len(chunk) if good else 0
    if good:
        return res
    if kind == "ident" and r.rc not in (0, None) and not r.out:
        res["refused"] = 1   # a refused file may hold one scalar that is no identifier character: look at each scalar alone
    # bisect to single code points
    bad = []
    for c in chunk:
        t = pack_lines([c], kind)
        s1 = enc_text([ord(x) for x in t], enc)
        r1 = run.unc(s1, None, "C"); res["runs"] += 1
        if r1.timeout or (r1.rc == 0 and r1.out != s1) or (r1.rc != 0 and r1.out):
            bad.append((c, r1))
        elif r1.rc != 0 and kind == "cmtstr":
            bad.append((c, r1))       # a scalar inside a comment or string must not make the file unformattable
        if len(bad) >= 3:
            break
    for c, r1 in bad:
        cls = "U+%04X" % c
        what = "altered" if r1.rc == 0 else "refused"
        res["viol"].append(({"clause": "scalar-not-reproduced", "placement": kind, "encoding": enc, "scalar": cls, "what": what},
                            {"input": enc_text([ord(x) for x in pack_lines([c], kind)], enc), "output": r1.out, "stderr": r1.err[-500:], "lang": "C", "config.cfg": ""}))
    if not bad and not (kind == "ident" and res["refused"]):
        res["viol"].append(({"clause": "packed-file-not-reproduced-but-singles-are", "placement": kind, "encoding": enc, "first": "U+%04X" % lo},
                            {"input": src, "output": r.out, "stderr": r.err[-500:], "lang": "C", "config.cfg": ""}))
    return res


# ---------------------------------------------------------------------------
# (ii) commutation

def deco(src, lang):
    """the same program with non-ASCII text in a comment, a string and an identifier"""
    s = src.decode()
    s = s.replace("/* sum */", "/* süm € \U0001d11e \U00020bb7 \U0010fffd */").replace('"%d\\n"', '"%d é中\U0001f600\\n"')
    s = s.replace("// out", "// öut  x").replace("int r =", "int rés = 0; int r =")
    s = s.replace("// namespace ns", "// nämespace \U00010000 \U00020000 \U000e0001").replace('"s"', '"σ"').replace("var a = 1;", "var a = 'ß\U0001f4a9';")
    return s


def comm_job(j):
    name, lang, text, pname, settings, ub, uy, uf = j
    res = {"id": "%s/%s/%s%s%s" % (name, pname, ub, uy, uf), "runs": 0, "nontrivial": 0, "viol": []}
    st = dict(settings); st.update({"utf8_bom": ub, "utf8_byte": uy, "utf8_force": uf})
    cfg = configs.text(st)
    cps = [ord(c) for c in text]
    ascii_only = max(cps) < 128
    ref = run.unc(enc_text(cps, "utf8"), cfg, lang); res["runs"] += 1
    if ref.rc != 0 or ref.timeout:
        return res
    d = dec_bytes(ref.out)
    if d is None:
        res["viol"].append(({"clause": "reference-output-not-decodable", "program": name, "profile": pname},
                            {"input": enc_text(cps, "utf8"), "output": ref.out, "config.cfg": cfg, "lang": lang}))
        return res
    T = d[2]
    for e in ALLENCS:
        if ascii_only and e.endswith("nobom") and len(text) < 6:
            continue
        src = enc_text(cps, e)
        r = run.unc(src, cfg, lang); res["runs"] += 1
        base, bom = expected_encoding(e, ascii_only, ub, uy, uf)
        want = out_bytes(T, base, bom)
        if r.rc == 0 and r.out != src:
            res["nontrivial"] += 1
        if r.timeout or r.rc != 0:
            res["viol"].append(({"clause": "transcoded-input-refused", "program": name, "encoding": e, "profile": pname, "opts": "%s/%s/%s" % (ub, uy, uf)},
                                {"input": src, "output": r.out, "stderr": r.err[-500:], "config.cfg": cfg, "lang": lang}))
        elif r.out != want:
            got = dec_bytes(r.out)
            if got is None:
                what = "undecodable-output"
            elif (got[0], got[1]) != (("utf8" if base == "ascii" else base), bom):
                what = "wrong-encoding-or-bom:%s,%s" % (got[0], got[1])
            else:
                what = "different-text"
            res["viol"].append(({"clause": "formatting-does-not-commute-with-transcoding", "program": name, "encoding": e, "profile": pname,
                                 "opts": "%s/%s/%s" % (ub, uy, uf), "what": what},
                                {"input": src, "output": r.out, "expected": want, "config.cfg": cfg, "lang": lang}))
    return res


# ---------------------------------------------------------------------------
# (iii) invalid input

def strip_ws(b):
    for bom in (b"\xff\xfe", b"\xfe\xff", b"\xef\xbb\xbf"):
        if b.startswith(bom):
            b = b[len(bom):]
    return bytes(c for c in b if c not in (0x20, 0x09, 0x0A, 0x0B, 0x0C, 0x0D, 0x00))


def invalid_job(j):
    kind, seqs = j
    res = {"id": kind, "runs": 0, "nontrivial": 0, "viol": []}
    for seq in seqs:
        if kind == "in-comment":
            if 10 in seq or 13 in seq:
                continue
            src = b"// a" + bytes(seq) + b"b\nint x;\n"
        elif kind == "in-string":
            if 10 in seq or 13 in seq or 0x22 in seq or 0x5C in seq:
                continue
            src = b'const char *s = "a' + bytes(seq) + b'b";\n'
        elif kind == "file-start":
            if all(0 < c < 0x80 for c in seq):
                continue          # plain ASCII in front of code is C02's / C06's business, not an encoding question
            src = bytes(seq) + b"int x;\n"
        else:
            src = seq
        r = run.unc(src, None, "C"); res["runs"] += 1
        exact = kind in ("in-comment", "in-string")
        if r.timeout or (r.rc is not None and r.rc < 0):
            bad = "crash-or-hang"
        elif r.rc != 0:
            res["nontrivial"] += 1
            bad = "output-on-refusal" if r.out else None
        elif exact:
            bad = None if r.out == src else "bytes-altered"
        else:
            bad = None if strip_ws(r.out) == strip_ws(src) else "bytes-altered"
        if bad:
            res["viol"].append(({"clause": "invalid-input-" + bad, "placement": kind, "bytes": bytes(seq if kind != "utf16" else src[:12]).hex()},
                                {"input": src, "output": r.out, "stderr": r.err[-500:], "config.cfg": "", "lang": "C"}))
    return res


def utf16_cases():
    out = []
    def w(be, words):
        b = b"\xfe\xff" if be else b"\xff\xfe"
        for x in words:
            b += x.to_bytes(2, "big" if be else "little")
        return b
    base = [0x2F, 0x2F, 0x20, 0x61]
    tail = [0x62, 0x0A, 0x69, 0x6E, 0x74, 0x20, 0x78, 0x3B, 0x0A]
    for be in (False, True):
        for mid in ([0xD800], [0xDC00], [0xDC00, 0xD800], [0xD800, 0x41], [0xDBFF, 0xDFFF], [0xD800, 0xDC00], [0xFFFE], [0xFFFF], [0xFEFF], [0xD800, 0xD800, 0xDC00]):
            out.append(w(be, base + mid + tail))
        out.append(w(be, base + tail) + b"\x41")         # odd length
        out.append(w(be, base + tail)[:-1])
        out.append(w(be, []))                              # BOM only
        out.append(w(be, [0x0A]))
    return out


def check(ctx):
    quick = ctx.tier == "quick"
    P = configs.profiles()
    agg = {"runs": 0, "nontrivial": 0}
    njobs = {"scalar": 0, "comm": 0, "invalid": 0}

    def take(res):
        agg["runs"] += res["runs"]; agg["nontrivial"] += res["nontrivial"]
        agg["scalars_ok"] = agg.get("scalars_ok", 0) + res.get("scalars_ok", 0)
        for w, files in res["viol"]:
            ctx.rep.violation(w, files, ["/verif/build/hooks/uncrustify", "-c", "/dev/null", "-l", "C", "-f", "input"])

    sj = []
    top = 0x10000 if quick else 0x110000
    sc = scalars(1, top)
    if quick:
        # every supplementary plane by its first and last 512 scalars (all 16 planes are decoded by different arithmetic paths)
        for plane in range(1, 17):
            sc += scalars(plane * 0x10000, plane * 0x10000 + 512) + scalars(plane * 0x10000 + 0xFE00, plane * 0x10000 + 0x10000)
    for kind in ("cmtstr", "ident"):
        pool_sc = sc if kind == "cmtstr" else [c for c in sc if c >= 0x80]
        for enc in (ENCS if not quick else ["utf8", "utf16le"] if kind == "ident" else ENCS):
            for i in range(0, len(pool_sc), 512):
                sj.append((kind, enc, pool_sc[i], pool_sc[i:i + 512]))
    cj = []
    progs = []
    for name, lang, src in skel.all_skeletons():
        if quick and name not in ("c-basic", "cpp-class", "oc-impl", "java-class", "cs-class", "ecma-basic", "d-mod", "vala-class", "pawn-basic"):
            continue
        progs.append((name + "+u", lang, deco(src, lang)))
        progs.append((name, lang, src.decode()))
    profs = [("defaults", {})] + ([(n, p) for n, p in P.items() if n in ("ben", "linux", "gnu-indent", "msvc")] if not quick else [("ben", P["ben"])])
    for name, lang, text in progs:
        for pn, st in profs:
            for ub in ("ignore", "add", "remove", "force"):
                for uy in ("false", "true"):
                    for uf in ("false", "true"):
                        cj.append((name, lang, text, pn, st, ub, uy, uf))
    ij = []
    one = [(a,) for a in range(256)]
    two = [(a, b) for a in (E19 if quick else range(256)) for b in (E19 if quick else range(256))]
    three = list(itertools.product(E19, repeat=3))
    four = list(itertools.product(E19, repeat=4)) if not quick else []
    # structurally complete multi-byte forms at the boundaries of every decoder range: each 4-byte lead with continuation bytes at
    # the edges of the overlong / surrogate / beyond-U+10FFFF windows, and the obsolete 5- and 6-byte forms
    conts = (0x80, 0x8F, 0x90, 0x9F, 0xA0, 0xBF)
    struct4 = [(l,) + c for l in (0xF0, 0xF1, 0xF3, 0xF4, 0xF5, 0xF7) for c in itertools.product(conts, repeat=3)]
    struct56 = [(l,) + c for l in (0xF8, 0xFB) for c in itertools.product((0x80, 0x88, 0xBF), repeat=4)] + \
               [(l,) + c for l in (0xFC, 0xFD) for c in itertools.product((0x80, 0x84, 0xBF), repeat=5)]
    allseq = one + two + three + four + struct4 + struct56
    for kind in ("in-comment", "in-string", "file-start"):
        for i in range(0, len(allseq), 256):
            ij.append((kind, allseq[i:i + 256]))
    ij.append(("utf16", utf16_cases()))
    ctx.log("scalar files: %d (%d scalars), commutation cases: %d, invalid-input batches: %d (%d sequences x 3 placements)" % (
        len(sj), len(sc), len(cj), len(ij), len(allseq)))
    with run.Pool() as pool:
        a = comm_job(cj[0]); b = comm_job(cj[0])
        if (a["runs"], len(a["viol"])) != (b["runs"], len(b["viol"])):
            print("HARNESS-NONDETERMINISM"); raise SystemExit(2)
        # harness self-test: the packed layout is a fixed point for a harmless scalar
        t = pack_lines([0x78] * 4, "cmtstr").encode()
        r = run.unc(t, None, "C")
        if r.out != t:
            print("HARNESS-ERROR: packed layout is not a fixed point of the default configuration"); raise SystemExit(2)
        for fn, jobs, key, cs in ((invalid_job, ij, "invalid", 1), (comm_job, cj, "comm", 4), (scalar_job, sj, "scalar", 2)):
            for res in pool.imap(fn, jobs, chunksize=cs, deadline=ctx.deadline):
                take(res); njobs[key] += 1
        if pool.cut:
            ctx.cut = True
    cov = {
        "evaluations": agg["runs"], "distinct_nontrivial": agg["nontrivial"],
        "states": len(sj) + len(cj) + len(ij), "transitions": agg["runs"], "traces_validated_against_impl": agg["runs"],
        "rule": "(i) %d Unicode scalars x {comment+string, identifier} x encodings, 512 per file (%d files); (ii) %d (program, profile, utf8_bom, "
                "utf8_byte, utf8_force) cases x 6 input encodings against the UTF-8 reference run; (iii) %d byte sequences x 3 placements + %d "
                "UTF-16 surrogate/length cases. distinct_nontrivial counts executions: scalar files formatted successfully, commutation runs "
                "whose output differs from the input, and refused invalid inputs (scalar placements reproduced: see scalar_placements_reproduced)" % (len(sc), len(sj), len(cj), len(allseq), len(utf16_cases())),
        "samples": [{"scalar_file": sj[3][0] + "/" + sj[3][1] + "/U+%04X.." % sj[3][2]}, {"commutation": list(cj[5][:2]) + list(cj[5][3:4]) + list(cj[5][5:])},
                    {"invalid": "// a" + bytes(allseq[300]).hex() + "b"}],
        "scalars": len(sc), "jobs_done": njobs, "scalar_placements_reproduced": agg.get("scalars_ok", 0),
    }
    return {"level": LEVEL, "coverage": cov,
            "assumptions": ["Python's codecs as the reference encoder/decoder", "packing 512 scalars per file; a failing file is bisected to single scalars"]}


def replay(path):
    import json
    w = json.load(open(os.path.join(path, "witness.json")))
    print(json.dumps(w, indent=1))
    src = open(os.path.join(path, "input"), "rb").read()
    cfg = open(os.path.join(path, "config.cfg")).read() or None
    lang = open(os.path.join(path, "lang")).read()
    r = run.unc(src, cfg, lang)
    exp = os.path.join(path, "expected")
    want = open(exp, "rb").read() if os.path.exists(exp) else src
    bad = r.timeout or (r.rc == 0 and r.out != want) or (r.rc != 0 and (r.out or "refused" in json.dumps(w)))
    print("status", r.rc, "output==expected", r.out == want)
    print("re-evaluated:", "violated" if bad else "holds")
    return 1 if bad else 0
