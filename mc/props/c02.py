"""C02  Token stream is preserved exactly under whitespace-only configurations."""
import os

from .. import bee, configs, oracles, run
from ..lex import cfamily
from ..universe import cgen, corpus

LEVEL = "model_checking"
KEYWORDS = {"int", "long", "short", "unsigned", "signed", "char", "float", "double", "void", "return", "sizeof",
            "if", "else", "for", "while", "do", "switch", "case", "default", "break", "goto", "struct", "union",
            "enum", "typedef", "static", "extern", "const", "new", "delete", "operator", "template", "typename",
            "class", "namespace", "using", "throw", "define", "include", "if", "ifdef", "ifndef", "endif", "elif", "pragma"}


def ws_family(name):
    return not configs.is_modifying(name)


def sp_family(name):
    return name.startswith("sp_") and not configs.is_modifying(name)


def nl_family(name):
    return (name.startswith("nl_") or name.startswith("indent_") or name.startswith("align_") or name.startswith("pos_")
            or name.startswith("pp_") or name in ("code_width", "ls_for_split_full", "ls_func_split_full", "ls_code_width",
                                                   "eat_blanks_after_open_brace", "eat_blanks_before_close_brace")) \
        and not configs.is_modifying(name)


def abstract(t):
    kind, text = t
    if isinstance(text, bytes):
        text = text.decode("latin-1")
    if kind == "id" and text not in KEYWORDS:
        return "ID"
    if kind == "num":
        return "NUM"
    if kind in ("str", "chr", "hdr"):
        return kind.upper()
    if kind in ("DIR(", "DIR)"):
        return kind
    if kind == "" and text and (text[0].isalpha() or text[0] == "_") and text not in KEYWORDS:
        return "ID"
    if kind == "" and text and text[0].isdigit():
        return "NUM"
    return text


_lexcache = {}


def lex_in(src, lang):
    k = (hash(src), lang)
    v = _lexcache.get(k)
    if v is None:
        if len(_lexcache) > 200:
            _lexcache.clear()
        lx = cfamily.lex(src, oracles.INDEP_LANGS[lang])
        v = (cfamily.norm_tokens(lx, split_shift=lang in SPLIT_SHIFT_LANGS), lx.ok)
        _lexcache[k] = v
    return v


SPLIT_SHIFT_LANGS = ("CPP", "OC", "OC+", "JAVA", "CS", "VALA")    # '>>' may close two template / generic argument lists


def self_norm(toks, lang):
    """uncrustify's own token dump, normalised the way the independent lexer's stream is: '>>' / '>>>' that may close generic
    argument lists split, the '[]' chunk split, and line terminators inside literals that span lines spelt as one newline"""
    out = []
    for kind, txt in toks:
        if isinstance(txt, bytes):
            if b"\xe2\x90\x8d" in txt:
                txt = txt.replace(b"\xe2\x90\x8d\xe2\x90\xa4", b"\xe2\x90\xa4").replace(b"\xe2\x90\x8d", b"\xe2\x90\xa4")
            if txt in (b">>", b">>>") and lang in SPLIT_SHIFT_LANGS:
                out.extend([(kind, b">")] * len(txt))
                continue
            if txt == b"[]":
                out.extend([(kind, b"["), (kind, b"]")])
                continue
        out.append((kind, txt))
    return out


def token_witness(a, b, which):
    i = oracles.first_diff(a, b)
    if i is None:
        return None
    ina = " ".join(abstract(x) for x in a[max(0, i - 0):i + 2])
    outb = " ".join(abstract(x) for x in b[max(0, i - 0):i + 2])
    A, B = oracles.describe_diff(a, b, i)
    return {"clause": "token-stream-changed", "oracle": which, "in_tokens": ina, "out_tokens": outb}, (A, B)


def judge(case, r):
    if r.timeout or r.rc != 0:
        return []
    lang = case["lang"]
    out = []
    use_self = case["meta"].get("self", False) or lang not in oracles.INDEP_LANGS
    indep_ok = False
    wide = b"\x00" in case["src"] or case["src"][:2] in (b"\xff\xfe", b"\xfe\xff")     # UTF-16 / NUL bytes: C09's subject, not lexable bytewise
    if lang in oracles.INDEP_LANGS and not case["meta"].get("self_only") and not wide:
        a, ok = lex_in(case["src"], lang)
        if ok:
            indep_ok = True
            lx = cfamily.lex(r.out, oracles.INDEP_LANGS[lang])
            b = cfamily.norm_tokens(lx, split_shift=lang in SPLIT_SHIFT_LANGS)
            w = token_witness(a, b, "independent-lexer")
            if w:
                w[0]["lang"] = lang
                w[0]["ctx"] = case["meta"].get("ctx", "")
                out.append(w[0])
    if (use_self or not indep_ok) and not out:
        a = self_norm(oracles.self_tokens(r.hook.get("tokens")), lang)
        r2 = run.unc(r.out, None, lang, hooks=("tokens",))
        b = self_norm(oracles.self_tokens(r2.hook.get("tokens")), lang)
        if a and (b or not r.out.strip()):
            w = token_witness(a, b, "uncrustify-tokeniser")
            if w:
                w[0]["lang"] = lang
                w[0]["ctx"] = case["meta"].get("ctx", "")
                out.append(w[0])
    if case["meta"].get("ctx") == "corpus":
        for w in out:
            w["file"] = case["prog"][7:] if case["prog"].startswith("corpus:") else case["prog"]
    return out


def expr_programs(contexts, per=40):
    ex = cgen.exprs(2)
    progs = []
    for ctx in contexts:
        if ctx == "define":
            lines = ["#define M%d %s" % (i, cgen.join(e)) for i, e in enumerate(ex)]
            for n, chunk in bee.pack(lines, per):
                progs.append(("expr:%s:%d" % (ctx, n), ("\n".join(chunk) + "\nint z;\n").encode(), {"ctx": ctx}))
            continue
        pre, post = cgen.EXPR_CONTEXTS[ctx]
        lines = ["    " + cgen.join(pre + e + post) for e in ex]
        for n, chunk in bee.pack(lines, per):
            if ctx == "init":
                chunk = ["    { " + l.strip() + " }" for l in chunk]
            progs.append(("expr:%s:%d" % (ctx, n), cgen.program(chunk, ret="int" if ctx == "ret" else "void"), {"ctx": ctx}))
    return progs


def stmt_programs(depth, per=20):
    st = cgen.stmts(depth, 2)
    progs = []
    for style in ("kr", "one"):
        funcs = []
        for i, s in enumerate(st):
            funcs.append("void t%d(void)\n{\n%s\n}\n" % (i, "\n".join(cgen.render(s, style, 1))))
        for n, chunk in bee.pack(funcs, per):
            progs.append(("stmt:%s:%d" % (style, n), (cgen.PRELUDE + "".join(chunk)).encode(), {"ctx": "stmt-" + style}))
    return progs


def check(ctx):
    quick = ctx.tier == "quick"
    R = bee.reg()
    P = configs.profiles()
    sp_bases = {"sp-remove": configs.sp_profile(R, "remove"), "sp-force": configs.sp_profile(R, "force"),
                "sp-add": configs.sp_profile(R, "add")}
    groups = []
    dl = ctx.deadline - 20

    def G(prog, lang, bname, base, fam1=None, fam2=None, k=0, meta=None, max_second=None):
        m = dict(prog[2]); m.update(meta or {})
        groups.append(bee.Group("C02", prog[0], prog[1], lang, bname, base, judge, fam1, fam2, k,
                                hooks=("tokens",), meta=m, deadline=dl, max_second=max_second))

    # (a) expression neighbourhoods
    ectx = ["stmt", "arg", "define"] if quick else ["stmt", "init", "arg", "ret", "cond", "define"]
    eprogs = expr_programs(ectx)
    for pr in eprogs:
        for lang in (("C",) if quick else ("C", "CPP")):
            G(pr, lang, "defaults", {}, sp_family, None, 1)
            for bn, b in sp_bases.items():
                G(pr, lang, bn, b, None, None, 0)
    # (b) preprocessor shapes and (c) declarations: all whitespace options singly
    for n, src in cgen.pp_units():
        for lang in ("C", "CPP"):
            G(("pp:" + n, src, {"ctx": "pp"}), lang, "defaults", {}, ws_family, None, 1)
            for bn, b in sp_bases.items():
                G(("pp:" + n, src, {"ctx": "pp"}), lang, bn, b, None, None, 0)
    for lang in ("C", "CPP"):
        for n, src in cgen.decl_units(lang):
            G(("decl:" + n, src, {"ctx": "decl"}), lang, "defaults", {}, ws_family, None, 1)
            for bn, b in sp_bases.items():
                G(("decl:" + n, src, {"ctx": "decl"}), lang, bn, b, None, None, 0)
    # (d) statements: newline / indent / align options singly
    for pr in stmt_programs(1 if quick else 2):
        G(pr, "C", "defaults", {}, nl_family, None, 1)
    # (d') a '//' comment at every token boundary of the C++ declaration units (a line comment swallowing the next token
    #      is a token loss; a newline option joining lines moves code into the comment)
    from . import c03
    for name, src, lang in [x for x in c03.base_programs(True) if x[2] == "CPP"]:
        for j, cls, vsrc, n in c03.variants(src, lang, "line", 4):
            G((name + "+line/" + j, vsrc, {"ctx": "line-comment-holes"}), lang, "defaults", {}, nl_family, None, 1)
    # (e) skeletons of all nine languages (the languages without an independent lexer are judged by uncrustify's own raw tokeniser)
    from ..universe import skel
    for name, lang, src in skel.all_skeletons():
        pr = ("skel:" + name, src, {"ctx": "skel", "self": lang not in oracles.INDEP_LANGS})
        G(pr, lang, "defaults", {}, ws_family if (not quick or lang not in ("C", "CPP")) else sp_family, None, 1)
        for bn, b in sp_bases.items():
            G(pr, lang, bn, b, None, None, 0)
    # (e') the language units written for the code-modifying options (import/using runs, using(), Pawn optional semicolons, OC
    #      property attributes, Boolean right-hand sides, mixed include lines): whitespace options singly
    from ..universe import langunits
    for lang in langunits.UNITS:
        for name, src, meta in langunits.units(lang):
            pr = (name, src, {"ctx": "lang", "self": lang not in oracles.INDEP_LANGS})
            G(pr, lang, "defaults", {}, ws_family, None, 1)
            for bn, b in sp_bases.items():
                G(pr, lang, bn, b, None, None, 0)
    # (e'') line comments whose last visible character is a backslash followed by blanks: not a continuation as long as the blank
    #       stays; after code, after a #define body, and a genuine continuation for contrast
    bs = (b"int a = 1; // scratch dir is C:\\tmp\\ \nint b = 2;\n#define LOG(x) emit(x) // keep the trailing \\\t\nint after_define;\n"
          b"int c = 3; // two blanks \\  \nint d = 4;\n// a real continuation \\\nint swallowed_by_the_comment;\nint e = 5;\n")
    for lang in ("C", "CPP"):
        pr = ("decl:cmt-backslash", bs, {"ctx": "decl"})
        G(pr, lang, "defaults", {}, ws_family, None, 1)
        for bn, b in sp_bases.items():
            G(pr, lang, bn, b, None, None, 0)
    # profiles (whitespace projection) on everything small
    for pn, p in P.items():
        if pn == "defaults":
            continue
        wp = configs.ws(p)
        for n, src in cgen.pp_units():
            G(("pp:" + n, src, {"ctx": "pp"}), "C", "ws(" + pn + ")", wp)
        for n, src in cgen.decl_units("CPP"):
            G(("decl:" + n, src, {"ctx": "decl"}), "CPP", "ws(" + pn + ")", wp)
        for pr in eprogs[::4]:
            G(pr, "C", "ws(" + pn + ")", wp)
    if not quick:
        # k=2: sp x sp on a slice of the expression universe (statement context)
        for pr in [p for p in eprogs if p[0].startswith("expr:stmt")][::3]:
            G(pr, "C", "defaults", {}, sp_family, sp_family, 2, max_second=None)
        # corpus: every input file of the repository's test-suite in its language, self-tokeniser oracle
        for (name, lang, src) in corpus.files():
            # embedded SQL ('$DECLARE', EXEC SQL blocks) is not C text: uncrustify's own tokeniser only
            pr = ("corpus:" + name, src, {"ctx": "corpus", "self": True, "self_only": name.startswith("sql/")})
            G(pr, lang, "defaults", {})
            for bn, b in sp_bases.items():
                G(pr, lang, bn, b)
            for pn in ("ben", "linux", "gnu-indent", "kr-indent", "sun", "freebsd"):
                if pn in P:
                    G(pr, lang, "ws(" + pn + ")", configs.ws(P[pn]))
    if os.environ.get("VERIF_ONLY_CTX"):          # development aid: one universe slice only
        groups = [g for g in groups if g.meta.get("ctx") == os.environ["VERIF_ONLY_CTX"]]
    ctx.log("groups: %d" % len(groups))
    # heavier groups first
    groups.sort(key=lambda g: -(g.k * 10 + (1 if g.fam1 else 0)))
    samples = []

    def on_result(res):
        if len(samples) < 5 and res["runs"] > 1:
            samples.append({"program": res["prog"], "base": res["base"], "runs": res["runs"], "read_set": res["readset"],
                            "pruned_single_deviations": res["pruned"]})

    with run.Pool() as pool:
        # replay self-test
        g0 = groups[-1]
        a = bee.run_group(g0); b = bee.run_group(g0)
        if (a["runs"], a["outcomes"], len(a["violations"])) != (b["runs"], b["outcomes"], len(b["violations"])):
            print("HARNESS-NONDETERMINISM"); raise SystemExit(2)
        agg = bee.drive(ctx, groups, pool, on_result=on_result)
    rs = agg["readset_sizes"]
    cov = {
        "evaluations": agg["runs"], "distinct_nontrivial": agg["nontrivial"],
        "states": agg["groups"], "transitions": agg["runs"], "traces_validated_against_impl": agg["runs"],
        "rule": "all programs of the universes (expression neighbourhoods packed 40 per function in contexts %s; preprocessor "
                "shapes; declaration units; statements) x base profiles x every single deviation over the options the base run "
                "read (family: whitespace-only options)%s; a case is non-trivial when the output differs from the input; "
                "states = (program, base) groups, transitions = executions" % (ectx, "" if quick else "; sp x sp pairs; corpus files"),
        "samples": samples or [{"note": "none"}],
        "groups": agg["groups"], "single_deviations_pruned_by_read_set": agg["pruned"],
        "refused_runs": agg["refused"], "timeouts": agg["timeouts"], "distinct_outcomes": agg["outcomes"],
        "read_set_min_max": [min(rs), max(rs)] if rs else [],
        "k_completed": 1 if quick else 2,
    }
    cov.update(bee.vacuity(agg))
    return {"level": LEVEL, "coverage": cov,
            "assumptions": ["independent lexer mc/lex/cfamily.py (self-checked on every generated expression)",
                            "an option the base run never reads cannot change the run (Option<T>::operator() is the only read path)"]}


def replay(path):
    import json
    w = json.load(open(os.path.join(path, "witness.json")))
    print(json.dumps(w, indent=1))
    lang = open(os.path.join(path, "lang")).read()
    r = run.unc(open(os.path.join(path, "input"), "rb").read(), open(os.path.join(path, "config.cfg")).read() or None, lang, hooks=("tokens",))
    case = {"src": open(os.path.join(path, "input"), "rb").read(), "lang": lang, "meta": {"ctx": w["witness"].get("ctx", "")}}
    v = judge(case, r)
    print("re-evaluated:", v)
    return 1 if v else 0
