"""C08  Line endings: one consistent terminator, and formatting commutes with it.

Programs with L <= 7 line breaks (multi-line block comment, backslash-continued macro, '//' comment with continuation,
string continuation, raw string with an embedded break, disabled region, blank-line runs, last line with / without terminator):
ALL 3^L assignments of {LF, CRLF, CR} to the breaks; longer programs (language skeletons): uniform, every 1-deviation and
(thorough) every 2-deviation.  x newlines in {lf, crlf, cr, auto} x profiles.

Oracle, per variant v (bytes) with canonical re-split c(v) (CRLF, else CR, else LF  ->  LF):
 (a) newlines = X fixed: outside literals every line break of the output is exactly X and no other CR / LF byte occurs
 (b) F_X(v) == F_X(c(v))               (converting terminators changes nothing else)
 (c) F_crlf(v) == lf->crlf(F_lf(v)), F_cr(v) == lf->cr(F_lf(v))     (outside literals)
 (d) newlines = auto: the terminator written is a most frequent terminator of v counted outside disabled regions
     (ties: any of the maxima; lines of the region markers themselves may be counted either way)
"""
import itertools, os, re

from .. import bee, configs, run
from ..universe import skel

LEVEL = "model_checking"
TERM = {"lf": b"\n", "crlf": b"\r\n", "cr": b"\r"}
SMALL = [
    ("blockcmt", "C", "/* a\n * b\n */\nint x;\n\n\nint y;\n"),
    ("blockcmt-stars", "C", "/*\n** text\n** more\n*/\nint x;\n"),
    ("blockcmt-hash", "C", "int y; /* a\n## x\n++ y\n*/\nint z;\n"),
    ("macro-cont", "C", "#define A \\\n b \\\n 1\nint x;\nint y;\n"),
    ("cpp-cmt-cont", "C", "int a; // c \\\n more\nint b;\n"),
    ("cpp-cmt-cont-nofinal", "C", "int a; // c \\\n more\nint b;"),
    ("rawstring", "CPP", "const char *s = R\"(a\nb)\";\nint x;\n"),
    ("region", "C", "int a;\n/* *INDENT-OFF* */\n  int   b;\n\n/* *INDENT-ON* */\nint c;\n"),
    ("function", "C", "void f(void)\n{\n  if (a)\n    b();\n}\n"),
    ("string-cont", "C", "char *s = \"ab\\\ncd\";\nint x;\n"),
    ("blank-run-nofinal", "C", "int a;\n\n\n\nint b;"),
    ("pp-if", "C", "#if A\nint a;\n#else\nint b;\n#endif\n"),
    ("macro-cmt", "C", "#define M(a) \\\n  /* c */ \\\n  (a)\nint u;\n"),
    ("region-asm", "C", "int a;\n#pragma asm\n mov  x\n#pragma endasm\nint c;\n"),
]


def canonical(v):
    return v.replace(b"\r\n", b"\n").replace(b"\r", b"\n")


def render(parts, assign):
    out = bytearray()
    for i, p in enumerate(parts):
        out += p
        if i < len(assign):
            out += TERM[assign[i]]
    return bytes(out)


RAW = re.compile(rb'R"([^ ()\\\t\r\n]*)\((?:.|\n|\r)*?\)\1"')


def mask_literals(b):
    return RAW.sub(b'R"()"', b)


def census(v):
    """terminator counts of v outside disabled regions -> list of admissible count dicts"""
    lines = re.split(rb"(\r\n|\r|\n)", v)
    cnts = []
    for incl_off, incl_on in ((True, True), (False, False), (True, False), (False, True)):
        c = {"lf": 0, "crlf": 0, "cr": 0}
        off = False
        for i in range(0, len(lines) - 1, 2):
            text, t = lines[i], lines[i + 1]
            is_off = b"*INDENT-OFF*" in text or b"#pragma asm" in text
            is_on = b"*INDENT-ON*" in text or b"#pragma endasm" in text
            k = {b"\n": "lf", b"\r\n": "crlf", b"\r": "cr"}[t]
            if is_off:
                off = True
                if incl_off:
                    c[k] += 1
                continue
            if is_on:
                off = False
                if incl_on:
                    c[k] += 1
                continue
            if not off:
                c[k] += 1
        cnts.append(c)
    return cnts


def cr_culprit(v):
    """context of the lone-CR line breaks of v, highest priority first (descriptor for known findings)"""
    ctxs = set()
    raw_spans = [(m.start(), m.end()) for m in RAW.finditer(v)]
    for m in re.finditer(rb"\r(?!\n)", v):
        i = m.start()
        line_start = max(v.rfind(b"\n", 0, i), v.rfind(b"\r", 0, i)) + 1
        line = v[line_start:i]
        if any(a <= i < b for a, b in raw_spans):
            ctxs.add("raw-string")
        elif line.endswith(b"\\") and b"//" in line:
            ctxs.add("cpp-comment-continuation")
        elif line.endswith(b"\\"):
            ctxs.add("backslash-continuation")
        else:
            ctxs.add("plain")
    for c in ("raw-string", "cpp-comment-continuation", "backslash-continuation", "plain"):
        if c in ctxs:
            return c
    return "none"


def census_sites(v):
    """the census as uncrustify's three counting sites see it: every line break except those directly after a backslash
    and those inside raw strings (known finding: continuation / literal breaks are not counted, region lines are)"""
    m = RAW.sub(lambda x: re.sub(rb"[\r\n]", b"", x.group(0)), v)
    c = {"lf": 0, "crlf": 0, "cr": 0}
    for x in re.finditer(rb"(\\?)(\r\n|\r|\n)", m):
        if x.group(1):
            continue
        c[{b"\n": "lf", b"\r\n": "crlf", b"\r": "cr"}[x.group(2)]] += 1
    return c


def breaks_ok(out, X):
    """clause (a)"""
    m = mask_literals(out)
    t = TERM[X]
    rest = m.replace(t, b"")
    return b"\r" not in rest and b"\n" not in rest


def job(j):
    name, lang, text, assigns, pname, settings = j
    parts = [p.encode() for p in text.split("\n")]
    res = {"id": name, "runs": 0, "nontrivial": 0, "variants": 0, "viol": [], "outcomes": {}}
    cache = {}

    def F(v, X):
        k = (v, X)
        if k not in cache:
            cfg = configs.text(settings, (("newlines", X),))
            r = run.unc(v, cfg, lang); res["runs"] += 1
            cache[k] = (r.rc if not r.timeout else "timeout", r.out)
        return cache[k]

    def viol(clause, v, X, extra=None, out=b""):
        w = {"clause": clause, "program": name, "newlines": X, "profile": pname, "culprit": cr_culprit(v)}
        w.update(extra or {})
        w.pop("mixed", None)
        w = {k: x for k, x in w.items() if not k.startswith("_")}
        res["viol"].append((w, {"input": v, "output": out, "config.cfg": configs.text(settings, (("newlines", X),)), "lang": lang}))

    for a in assigns:
        v = render(parts, a)
        cv = canonical(v)
        res["variants"] += 1
        mixed = len(set(a)) > 1
        outs = {}
        for X in ("lf", "crlf", "cr"):
            rc, out = F(v, X)
            rcc, outc = F(cv, X)
            outs[X] = (rc, out)
            res["outcomes"][str(rc)] = res["outcomes"].get(str(rc), 0) + 1
            if rc != rcc:
                viol("status-depends-on-terminators", v, X, {"mixed": mixed}, out)
                continue
            if rc != 0:
                continue
            res["nontrivial"] += 1 if v != cv else 0
            if not breaks_ok(out, X):
                viol("foreign-line-break-in-output", v, X, {"mixed": mixed}, out)
            if mask_literals(out) != mask_literals(outc):
                viol("output-depends-on-input-terminators", v, X, {"mixed": mixed}, out)
        if outs["lf"][0] == 0:
            base = mask_literals(outs["lf"][1])
            for X in ("crlf", "cr"):
                if outs[X][0] == 0 and mask_literals(outs[X][1]) != base.replace(b"\n", TERM[X]):
                    viol("crlf-output-is-not-lf-output-with-terminators-replaced", v, X, {"mixed": mixed}, outs[X][1])
        # auto
        rc, out = F(v, "auto")
        if rc == 0 and outs["lf"][0] == 0:
            used = None
            for X in ("crlf", "cr", "lf"):
                if mask_literals(out) == mask_literals(outs[X][1]):
                    used = X
                    break
            if mask_literals(outs["lf"][1]).count(b"\n") == 0:
                continue       # no line break written at all: nothing to observe
            if used is None:
                viol("auto-output-matches-no-fixed-setting", v, "auto", {"mixed": mixed}, out)
            else:
                ok = False
                for c in census(v):
                    mx = max(c.values())
                    if c[used] == mx:
                        ok = True
                if not ok:
                    cs = census_sites(v)
                    cause = "census-sites" if cs[used] == max(cs.values()) else "other"
                    if cause == "other" and (b"INDENT-OFF" in v or b"#pragma asm" in v):
                        cause = "region-census"     # inside a disabled region CRLF is seen as text + LF
                    viol("auto-did-not-pick-most-frequent-terminator", v, "auto", {"cause": cause, "_used": used, "_census": str(census(v)[0])}, out)
    return res


def assignments(L, mode):
    K = ("lf", "crlf", "cr")
    if mode == "all":
        return list(itertools.product(K, repeat=L))
    out = []
    for u in K:
        base = [u] * L
        out.append(tuple(base))
        for i in range(L):
            for d in K:
                if d != u:
                    b = list(base); b[i] = d
                    out.append(tuple(b))
        if mode == "dev2":
            for i in range(L):
                for k in range(i + 1, L):
                    for d1 in K:
                        for d2 in K:
                            if d1 != u and d2 != u:
                                b = list(base); b[i] = d1; b[k] = d2
                                out.append(tuple(b))
    return out


def check(ctx):
    quick = ctx.tier == "quick"
    P = configs.profiles()
    jobs = []
    profs = [("defaults", {})] + ([("ben", P["ben"])] if quick else [(n, P[n]) for n in ("ben", "linux", "gnu-indent", "msvc")])
    for name, lang, text in SMALL:
        L = text.count("\n")
        al = assignments(L, "all")
        for pn, st in profs:
            for i in range(0, len(al), 81):
                jobs.append((name, lang, text, al[i:i + 81], pn, st))
    for name, lang, src in skel.all_skeletons():
        text = src.decode()
        if name == "cpp-misc":
            text = text.replace('R\\"x(raw \\" text)x\\"', 'R"x(raw)x"')
        L = text.count("\n")
        al = assignments(L, "dev1" if quick else "dev2" if L <= 16 else "dev1")
        if quick and name not in ("c-basic", "c-pp", "cpp-func", "pawn-basic", "d-mod", "cs-class"):
            continue
        for i in range(0, len(al), 40):
            jobs.append((name, lang, text, al[i:i + 40], "defaults", {}))
    # option sweep: every single deviation (lexer-altering options included) over the options a program's run reads, on the
    # uniformly CRLF (thorough: + CR, + alternating) spelling of the program: whatever the option, converting the terminators
    # must change nothing else
    R = bee.reg()
    nsweep = 0
    for name, lang, text in SMALL:
        if quick and name not in ("macro-cont", "cpp-cmt-cont", "rawstring", "region", "string-cont", "macro-cmt", "blockcmt-stars", "pp-if"):
            continue
        L = text.count("\n")
        vs = [("crlf",) * L] if quick else [("crlf",) * L, ("cr",) * L, tuple(("crlf", "lf", "cr")[i % 3] for i in range(L))]
        r0 = run.unc(text.encode(), "newlines=lf\n", lang, hooks=("reads",))
        pred = lambda n: n != "newlines" and not n.startswith(("utf8_", "cmt_insert_", "debug_"))
        for d in configs.singles(R, {}, r0.reads, pred, allow_lexer=True):
            jobs.append((name, lang, text, vs, "defaults+" + d[0], {d[0]: d[1]}))
            nsweep += 1
    ctx.log("jobs: %d (option-sweep jobs: %d)" % (len(jobs), nsweep))
    agg = {"runs": 0, "nontrivial": 0, "variants": 0, "outcomes": {}}
    with run.Pool() as pool:
        a = job(jobs[0]); b = job(jobs[0])
        if (a["runs"], len(a["viol"]), a["outcomes"]) != (b["runs"], len(b["viol"]), b["outcomes"]):
            print("HARNESS-NONDETERMINISM"); raise SystemExit(2)
        for res in pool.imap(job, jobs, chunksize=1, deadline=ctx.deadline):
            for k in ("runs", "nontrivial", "variants"):
                agg[k] += res[k]
            for k, v in res["outcomes"].items():
                agg["outcomes"][k] = agg["outcomes"].get(k, 0) + v
            for w, files in res["viol"]:
                ctx.rep.violation(w, files, ["/verif/build/hooks/uncrustify", "-c", "config.cfg", "-l", files["lang"], "-f", "input"])
        if pool.cut:
            ctx.cut = True
    cov = {
        "evaluations": agg["runs"], "distinct_nontrivial": agg["nontrivial"],
        "states": agg["variants"], "transitions": agg["runs"], "traces_validated_against_impl": agg["runs"],
        "rule": "%d small programs x ALL 3^L terminator assignments (L <= 7) x %d profiles, plus language skeletons x uniform/1-deviation%s "
                "assignments; each variant formatted under newlines = lf, crlf, cr, auto and compared with its LF-canonical form; "
                "non-trivial = a variant that is not already LF-only and was formatted" % (len(SMALL), len(profs), "" if quick else "/2-deviation"),
        "samples": [{"program": SMALL[1][0], "text": SMALL[1][2], "assignment": ["crlf", "crlf", "lf", "lf", "lf"]}, {"program": SMALL[5][0], "text": SMALL[5][2]}],
        "variants": agg["variants"], "distinct_outcomes": agg["outcomes"],
    }
    return {"level": LEVEL, "coverage": cov,
            "assumptions": ["raw string literals are the only literals that may contain a line break; they are masked before comparing",
                            "terminators of the region-marker lines themselves may be counted or not for newlines=auto"]}


def replay(path):
    import json
    w = json.load(open(os.path.join(path, "witness.json")))["witness"]
    print(json.dumps(w, indent=1))
    v = open(os.path.join(path, "input"), "rb").read()
    lang = open(os.path.join(path, "lang")).read()
    cfgs = open(os.path.join(path, "config.cfg")).read()
    st = configs.parse_cfg(cfgs); st.pop("newlines", None)
    parts = canonical(v).split(b"\n")
    a = [{b"\n": "lf", b"\r\n": "crlf", b"\r": "cr"}[t] for t in re.findall(rb"\r\n|\r|\n", v)]
    res = job((w.get("program", "replay"), lang, canonical(v).decode("latin-1"), [tuple(a)], w.get("profile", ""), st))
    print("re-evaluated:", [x[0] for x in res["viol"]])
    return 1 if res["viol"] else 0
