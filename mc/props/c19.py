"""C19  Spacing options mean what they say at the places they are reported to govern.

Universe: every expression of G_expr(2) in statement / argument / initialiser / return / condition / #define context (packed),
declaration units (C and C++: templates, lambdas, ctor-init lists, operators, casts ...), preprocessor units, C / C++ / ObjC / Java
skeletons, each in its original and in a wide-gap layout
x base profiles {defaults, all sp_ add, all sp_ remove, all sp_ force}
x EVERY sp_ option the run reads at EACH of its four values (exhaustive over options x values by the read-set argument);
thorough adds sp x sp pairs.  Alignment and code_width stay off.

Oracle: the guarded hook UNC_VERIF_SPACE reports, for every pair space_text() decides, the rule string logged last, the value
do_space() returned and the value after ensure_force_space().  For records whose rule is exactly the name of a registered iarf option O:
 (1) attribution: the value returned is the configured value of O (or that value with ADD set in one of the situations the
     property exempts: the pair would lex differently when written without a space, PCF_FORCE_SPACE);
 (2) effect: the gap between the two tokens in the OUTPUT (tokens paired with the input by the independent lexer; same output
     line, nothing but blanks between them) obeys the configured value: remove -> none (same exemptions), force -> exactly one,
     add -> at least one, ignore -> present iff present in the input.
"""
import os, re

from .. import bee, configs, oracles, registry, run
from ..lex import cfamily
from ..universe import cgen, langunits, skel
from . import c02, c05

LEVEL = "model_checking"
IARF = {"ignore": 0, "add": 1, "remove": 2, "force": 3}
NAME = {v: k for k, v in IARF.items()}
LEXLANG = {"C": "C", "CPP": "CPP", "OC": "OC", "JAVA": "JAVA", "CS": "CS", "D": "D", "VALA": "VALA"}
WORDLIKE = re.compile(rb"^[A-Za-z0-9_$\x80-\xff.'\"]")


def tok_table(data, lang):
    """-> list of (start, end, text bytes, line, col) for real tokens, or None"""
    lx = cfamily.lex(data, LEXLANG[lang])
    if not lx.ok:
        return None
    out = []
    # line / column of every offset (columns count from 1; no tabs in these inputs)
    line_starts = [0]
    for m in re.finditer(rb"\n", data):
        line_starts.append(m.end())
    import bisect
    for t, st in zip(lx.toks, lx.starts):
        if t.kind in ("DIR(", "DIR)"):
            continue
        text = t.text if isinstance(t.text, str) else t.text.decode("latin-1")
        if text == "(adj":
            text = "("
        b = text.encode("latin-1")
        if data[st:st + len(b)] != b:
            return None          # token spelt with a line splice: positions are not comparable
        li = bisect.bisect_right(line_starts, st) - 1
        out.append((st, st + len(b), b, li + 1, st - line_starts[li] + 1))
    return out


def fuses(a, b, lang):
    """True when a and b written without a blank do not lex back to (a, b)"""
    lx = cfamily.lex(a + b, LEXLANG[lang])
    tt = [(t.text if isinstance(t.text, str) else t.text.decode("latin-1")) for t in lx.toks if t.kind not in ("DIR(", "DIR)")]
    tt = ["(" if x == "(adj" else x for x in tt]
    return tt != [a.decode("latin-1"), b.decode("latin-1")] or not lx.ok or bool(lx.comment_spans)


def judge(case, r):
    if r.timeout or r.rc != 0:
        return []
    lang = case["lang"]
    R = bee.reg()
    st = dict(case["base_settings"])
    for k, v in case["devs"]:
        st[k] = v
    tin = tok_table(case["src"], lang)
    tout = tok_table(r.out, lang)
    if tin is None or tout is None or [t[2] for t in tin] != [t[2] for t in tout]:
        return []            # token streams differ: C02's business; nothing is paired here
    pos = {(t[3], t[4]): i for i, t in enumerate(tin)}
    recs = {}
    for ln in (r.hook.get("space") or b"").decode("latin-1").split("\n"):
        f = ln.split("\t")
        if len(f) < 14 or f[0] != "S":
            continue
        recs[(int(f[1]), int(f[2]))] = f
    out = []
    stats = case["meta"].setdefault("_stats", {"pairs": 0, "attributed": 0})
    for (l1, c1), f in recs.items():
        rule = f[5]
        o = R.get(rule)
        if o is None or o.type != "iarf":
            continue
        i = pos.get((l1, c1)); j = pos.get((int(f[3]), int(f[4])))
        if i is None or j is None or j != i + 1:
            continue
        a, b = tin[i][2], tin[j][2]
        try:
            if bytes.fromhex(f[12]) != a or bytes.fromhex(f[13]) != b:
                continue
        except ValueError:
            continue
        stats["pairs"] += 1
        conf = IARF[st.get(rule, o.default)]
        av_raw, av, flag = int(f[6]), int(f[7]), False       # the exemption is the statement's (would the pair lex differently?), not uncrustify's own flag
        would_fuse = fuses(a, b, lang) or (WORDLIKE.match(a[-1:]) and WORDLIKE.match(b[:1]) and (a[-1:].isalnum() or a[-1:] == b"_") and (b[:1].isalnum() or b[:1] == b"_"))
        # the statement's own exemptions: 'return' / 'case' and an operand; a macro name (or the ')' of its parameter list) and the
        # token opening its body
        if a in (b"return", b"case") or rule in ("sp_macro", "sp_macro_func"):
            would_fuse = True
        # digraph spellings ('<:' '%:' ':>' '%>' '<%'): pre-C++11 lexers read '<::' as '<:' ':' - uncrustify keeps the input there
        if (a[-1:] + b[:1]) in (b"<:", b"%:", b":>", b"%>", b"<%"):
            would_fuse = True
        w0 = {"option": rule, "configured": NAME[conf], "first": f[10], "second": f[11], "lang": lang}
        ctx_txt = "%s | %s  (input line %d col %d)" % (a.decode("latin-1"), b.decode("latin-1"), l1, c1)
        # (1) attribution
        if av_raw != conf:
            # in an exempt situation ADD may be set, or a configured Remove may be softened to "keep the input"
            if not ((av_raw == (conf | 1) or (av_raw == IARF["ignore"] and conf == IARF["remove"])) and (flag or would_fuse)):
                out.append(dict(w0, clause="value-of-another-option-applied", returned=NAME.get(av_raw, str(av_raw)), _pair=ctx_txt))
                continue
        stats["attributed"] += 1
        # (2) effect in the output
        gi = case["src"][tin[i][1]:tin[j][0]]
        go = r.out[tout[i][1]:tout[j][0]]
        if go.strip(b" \t") or b"\n" in go:
            continue            # not on one output line / a comment in between
        n = len(go.replace(b"\t", b" "))
        bad = None
        if conf == IARF["remove"]:
            if n != 0 and not (flag or would_fuse or av != IARF["remove"] and would_fuse):
                bad = "gap-despite-remove"
        elif conf == IARF["force"]:
            if go != b" ":
                bad = "not-exactly-one-space-despite-force"
        elif conf == IARF["add"]:
            if n < 1:
                bad = "no-gap-despite-add"
        else:
            had = len(gi) > 0
            if had != (n > 0) and not (not had and (flag or would_fuse)):
                bad = "gap-presence-changed-despite-ignore"
        if bad:
            out.append(dict(w0, clause=bad, _pair=ctx_txt, _gap_in=repr(gi), _gap_out=repr(go), _returned=NAME.get(av_raw), _final=NAME.get(av)))
    # one witness per (clause, option) and run is enough
    seen, res = set(), []
    for w in out:
        k = (w["clause"], w["option"], w["configured"])
        if k not in seen:
            seen.add(k); res.append(w)
    return res


def sp_family(name):
    return name.startswith("sp_") and not configs.is_modifying(name)


def programs(quick):
    progs = []
    ectx = ["stmt", "arg", "define"] if quick else ["stmt", "init", "arg", "ret", "cond", "define"]
    for pid, src, meta in c02.expr_programs(ectx, per=40):
        progs.append((pid, "C", src))
        if not quick:
            progs.append((pid, "CPP", src))
    for lang in ("C", "CPP"):
        for n, s in cgen.decl_units(lang):
            progs.append(("decl:" + n, lang, s))
    for n, s in cgen.pp_units():
        progs.append(("pp:" + n, "C", s))
    for name, lang, src in skel.all_skeletons(tuple(LEXLANG)):
        progs.append(("skel:" + name, lang, src))
    for pr in c02.stmt_programs(1 if quick else 2):
        progs.append((pr[0], "C", pr[1]))
    # units written for the spacing options nothing else reaches, and the language units of the mod_ options
    for lang in LEXLANG:
        for n, s, _m in langunits.sp_units(lang) + langunits.units(lang):
            progs.append((n, lang, s))
    return progs


def check(ctx):
    quick = ctx.tier == "quick"
    R = bee.reg()
    bases = {"defaults": {}, "sp-add": configs.sp_profile(R, "add"), "sp-remove": configs.sp_profile(R, "remove"), "sp-force": configs.sp_profile(R, "force")}
    groups = []
    dl = ctx.deadline - 20
    progs = programs(quick)
    for pid, lang, src in progs:
        lays = [("orig", src)]
        wide = dict(c05.layouts(src)).get("wide-gaps")
        if wide and wide != src:
            lays.append(("wide", wide))
        for ln, ls in lays:
            if b"\t" in ls:
                continue
            for bn, base in bases.items():
                # singles from defaults on everything; from the other bases on the non-expression programs (quick) / everything (thorough)
                k = 1 if (bn == "defaults" or not quick or not pid.startswith("expr:")) else 0
                if quick and bn != "defaults" and ln == "wide":
                    continue
                groups.append(bee.Group("C19", "%s/%s" % (pid, ln), ls, lang, bn, base, judge, sp_family, None, k, hooks=("space",), deadline=dl, meta={}))
    if not quick:
        for pid, lang, src in progs:
            if pid.startswith(("decl:", "skel:")):
                groups.append(bee.Group("C19", pid + "/pairs", src, lang, "defaults", {}, judge, sp_family, sp_family, 2, hooks=("space",), deadline=dl, meta={}, max_second=60))
    ctx.log("groups: %d (programs %d)" % (len(groups), len(progs)))
    groups.sort(key=lambda g: -(g.k * 10 + len(g.src) / 10000.0))
    with run.Pool() as pool:
        a = bee.run_group(groups[-1]); b = bee.run_group(groups[-1])
        if (a["runs"], a["outcomes"], len(a["violations"])) != (b["runs"], b["outcomes"], len(b["violations"])):
            print("HARNESS-NONDETERMINISM"); raise SystemExit(2)
        agg = bee.drive(ctx, groups, pool)
    cov = {
        "evaluations": agg["runs"], "distinct_nontrivial": agg["nontrivial"],
        "states": agg["groups"], "transitions": agg["runs"], "traces_validated_against_impl": agg["runs"],
        "rule": "%d programs (expression neighbourhoods, declaration / preprocessor units, skeletons, statements) x {original, wide-gap} layout x 4 "
                "spacing bases x every sp_ option read at each of its 4 values%s; every pair decided by space_text() whose logged rule is a "
                "registered option is judged; non-trivial = output differs from input" % (len(progs), "" if quick else " + sp x sp pairs"),
        "samples": [{"program": groups[0].prog_id, "base": groups[0].base_name}, {"program": groups[-1].prog_id, "base": groups[-1].base_name}],
        "single_deviations_pruned_by_read_set": agg["pruned"], "refused_runs": agg["refused"], "distinct_outcomes": agg["outcomes"],
    }
    cov.update(bee.vacuity(agg, family=[n for n in bee.reg() if n.startswith('sp_')]))
    return {"level": LEVEL, "coverage": cov,
            "assumptions": ["hook UNC_VERIF_SPACE reports the rule string logged last before do_space() returned",
                            "tokens of input and output are paired by the independent lexer (cases whose token streams differ belong to C02)"]}


def replay(path):
    import json
    w = json.load(open(os.path.join(path, "witness.json")))["witness"]
    print(json.dumps(w, indent=1))
    src = open(os.path.join(path, "input"), "rb").read()
    cfgt = open(os.path.join(path, "config.cfg")).read()
    lang = open(os.path.join(path, "lang")).read()
    r = run.unc(src, cfgt or None, lang, hooks=("space",))
    v = judge({"src": src, "lang": lang, "base_settings": configs.parse_cfg(cfgt), "devs": (), "meta": {}}, r)
    v = [x for x in v if x["option"] == w["option"] and x["clause"] == w["clause"]]
    print("re-evaluated:", v[:2])
    return 1 if v else 0
