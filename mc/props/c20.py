"""C20  Blank-line limits are respected.

Programs (functions, variable-definition blocks, structs, classes, namespaces, comments between functions, preprocessor
blocks) x blank-line injection at every line boundary: uniform k = 0..6 everywhere, and every 1-deviation (one boundary gets
k = 0..6 blank lines; thorough: every 2-deviation for k in {0, 3, 6}); file start / end with 0..4 blank lines.
Configurations: the full product nl_max 0..6 x eat_blanks_after_open_brace x eat_blanks_before_close_brace (28), crossed with every
1-deviation over the start/end family nl_start_of_file / nl_end_of_file (4 values) x their _min 0..3; and every blank-line count
option of the registry at every value <= nl_max (k = 1; thorough: pairs of them).

Oracle (comments, literals and backslash-continued lines masked by the independent lexer):
 (1) nl_max = N > 0: no run of more than N consecutive line breaks;
 (2) start / end of file: remove -> no line break; force with minimum m > 0 -> exactly m; add with m > 0 -> at least m (and <= N);
     otherwise line breaks are neither invented nor lost entirely;
 (3) eat_blanks_after_open_brace: no blank line directly after a '{' that ends a line; eat_blanks_before_close_brace: none directly
     before a '}' that starts a line.
"""
import itertools, os, re

from .. import bee, configs, run
from ..lex import cfamily
from ..universe import cgen
from . import c16

LEVEL = "model_checking"
LEXLANG = {"C": "C", "CPP": "CPP"}

PROGS = [
    ("funcs", "C", "#include <stdio.h>\n#define MAXV 3\nstatic int g1;\nstatic int g2;\n/* about add */\nint add(int a, int b)\n{\n    int r;\n    int s = 1;\n    r = a + b;\n    if (r > MAXV) {\n        r = MAXV;\n    }\n    return r + s;\n}\n// about nop\nvoid nop(void)\n{\n}\nint twice(int x) { return add(x, x); }\nint proto1(int);\nint proto2(int);\n"),
    ("struct", "C", "struct P {\n    int x;\n    int y;\n};\ntypedef int myint;\ntypedef long mylong;\nenum E { A, B };\nstruct P pt;\nint after;\n"),
    ("switch", "C", "int sw(int v)\n{\n    switch (v) {\n    case 1:\n        v++;\n        break;\n    case 2: {\n        v--;\n        break;\n    }\n    default:\n        break;\n    }\n    return v;\n}\n"),
    ("pp", "C", "#ifndef G_H\n#define G_H\n#include <stddef.h>\n#if defined(X)\nint a1;\n#else\nint a2;\n#endif\n#define M(a) \\\n    ((a) + \\\n     1)\nint z;\n#pragma pack(1)\nint zp;\n#pragma pack()\n#warning note this\nint zw;\n#endif\n"),
    ("comments", "C", "/* file header\n * two\n */\nint a;\n/* multi\n\n   with blank */\nint b; // trailing\n// line one\n// line two\nint c;\n"),
    ("class", "CPP", "namespace ns {\nclass A {\npublic:\n    A();\n    ~A();\n    int get() const { return x_; }\nprivate:\n    int x_;\n};\nstruct B { int q; };\n}\nusing namespace ns;\nA::A() : x_(0)\n{\n}\nint A_get(A &a)\n{\n    try {\n        return a.get();\n    } catch (...) {\n    }\n    return 0;\n}\n"),
    ("brace-comments", "C", "struct Q { // members\n    int x;\n    int y;\n};\nint bc(int a)\n{ /* body */\n    for (;;) { // loop\n        a++;\n        break;\n    }\n    int arr[] = { // init\n        1, 2\n    };\n    return a + arr[0];\n}\n"),
    ("nested", "C", "void f(int a)\n{\n    {\n        int k = a;\n        while (k) {\n            k--;\n        }\n    }\n    do {\n        a--;\n    } while (a);\n}\n"),
]


def inject(lines, counts):
    """counts[i] = number of blank lines after line i (len = len(lines) - 1), plus counts['start'], counts['end'] (line breaks)"""
    out = []
    for i, l in enumerate(lines):
        out.append(l)
        if i < len(lines) - 1:
            out += [""] * counts.get(i, 0)
    s = "\n" * counts.get("start", 0) + "\n".join(out) + "\n" * counts.get("end", 1)
    return s.encode("latin-1")


def mask(out, lang):
    lx = cfamily.lex(out, LEXLANG[lang])
    m = bytearray(len(out))
    for a, b in list(lx.comment_spans) + list(lx.literal_spans):
        for i in range(a, min(b, len(out))):
            m[i] = 1
    return m


def judge_text(src, out, lang, st):
    v = []
    t = out.replace(b"\r\n", b"\n")
    m = mask(t, lang)
    N = int(st.get("nl_max", "0"))
    # runs of consecutive line breaks: a content line's terminator starts a run, every following blank line extends it
    maxrun, maxat = 0, 0
    lines = t.split(b"\n")
    pos = 0
    k = 0
    for idx, l in enumerate(lines[:-1]):
        end = pos + len(l)           # offset of this line's '\n'
        is_break = not m[end] and not l.rstrip(b" \t").endswith(b"\\")
        if not is_break:
            k = 0
        elif not l.strip(b" \t"):
            k += 1
        else:
            k = 1
        if k > maxrun:
            maxrun, maxat = k, idx + 1
        pos = end + 1
    if N > 0 and maxrun > N:
        v.append(("more-than-nl_max-consecutive-line-breaks", "run of %d line breaks ending at output line %d (nl_max=%d)" % (maxrun, maxat, N)))
    # start / end of file
    body = t.strip(b"\n")
    if body.strip():
        lead = len(t) - len(t.lstrip(b"\n"))
        trail = len(t) - len(t.rstrip(b"\n"))
        s0 = src.replace(b"\r\n", b"\n")
        had_lead = len(s0) - len(s0.lstrip(b"\n"))
        had_trail = len(s0) - len(s0.rstrip(b"\n"))
        for which, opt, got, had in (("start", "nl_start_of_file", lead, had_lead), ("end", "nl_end_of_file", trail, had_trail)):
            a = st.get(opt, "ignore"); mn = int(st.get(opt + "_min", "0"))
            if a == "remove":
                if got != 0:
                    v.append(("file-%s-not-as-configured" % which, "%s=remove: %d line breaks" % (opt, got)))
            elif a == "force" and mn > 0:
                if got != mn:
                    v.append(("file-%s-not-as-configured" % which, "%s=force min=%d: %d line breaks" % (opt, mn, got)))
            elif a == "add" and mn > 0:
                if got < mn:
                    v.append(("file-%s-not-as-configured" % which, "%s=add min=%d: %d line breaks" % (opt, mn, got)))
            elif a == "ignore":
                if (had == 0) != (got == 0):
                    v.append(("file-%s-not-as-configured" % which, "%s=ignore: input %d line breaks, output %d" % (opt, had, got)))
    # eat_blanks
    pos = 0
    for idx, l in enumerate(lines[:-1]):
        end = pos + len(l)
        s = l.strip(b" \t")
        # the code part of the line (a trailing comment after the brace does not separate the brace from the blank line)
        code = bytes(ch for q, ch in enumerate(l) if not m[pos + q]).strip(b" \t")
        if st.get("eat_blanks_after_open_brace", "false") == "true" and code.endswith(b"{") and not m[end]:
            if idx + 1 < len(lines) - 1 and not lines[idx + 1].strip(b" \t") and idx + 2 < len(lines) and lines[idx + 2].strip():
                v.append(("blank-line-after-open-brace", "output line %d" % (idx + 1)))
        if st.get("eat_blanks_before_close_brace", "false") == "true" and s.startswith(b"}") and not m[pos + len(l) - len(l.lstrip(b" \t"))]:
            if idx >= 1 and not lines[idx - 1].strip(b" \t") and idx >= 2:
                pe = pos - 1 - 1 - len(lines[idx - 1])     # the '\n' ending the line before the blank one
                if pe >= 0 and not m[pe]:
                    v.append(("blank-line-before-close-brace", "output line %d" % (idx + 1)))
        pos = end + 1
    return v


def job(j):
    name, lang, src, var, cfgs = j
    res = {"id": "%s/%s" % (name, var), "runs": 0, "nontrivial": 0, "viol": []}
    for st in cfgs:
        cfg = configs.text(st)
        r = run.unc(src, cfg, lang); res["runs"] += 1
        if r.timeout or r.rc != 0:
            if r.rc == 78:
                continue         # refused as inconsistent with nl_max: outside the proviso
            res["viol"].append(({"clause": "valid-program-refused", "status": r.rc, "opts": ",".join(sorted(st))},
                                {"input": src, "output": r.out, "stderr": r.err[-600:], "config.cfg": cfg, "lang": lang}))
            continue
        if r.out != src:
            res["nontrivial"] += 1
        for clause, detail in judge_text(src, r.out, lang, st)[:1]:
            fam = sorted(k for k in st if k not in ("nl_max",))
            w = {"clause": clause, "lang": lang, "nl_max": st.get("nl_max", "0"), "opts": ",".join(fam)}
            res["viol"].append((w, {"input": src, "output": r.out, "config.cfg": cfg, "lang": lang, "detail": detail, "where": res["id"]}))
    return res


def variants(lines, thorough):
    nb = len(lines) - 1
    out = []
    for k in range(7):
        out.append(("uniform%d" % k, {i: k for i in range(nb)}))
    for i in range(nb):
        for k in range(7):
            out.append(("dev1:%d:%d" % (i, k), {i: k}))
    if thorough:
        for i in range(nb):
            for i2 in range(i + 1, min(nb, i + 4)):
                for k in (0, 3, 6):
                    for k2 in (3, 6):
                        out.append(("dev2:%d,%d:%d,%d" % (i, i2, k, k2), {i: k, i2: k2}))
    return out


def check(ctx):
    quick = ctx.tier == "quick"
    R = bee.reg()
    cnt = c16.count_options(R)
    base28 = [{"nl_max": str(n), "eat_blanks_after_open_brace": a, "eat_blanks_before_close_brace": b}
              for n in range(7) for a in ("false", "true") for b in ("false", "true")]
    se = []
    for opt in ("nl_start_of_file", "nl_end_of_file"):
        for a in ("ignore", "add", "remove", "force"):
            for mn in range(4):
                se.append({opt: a, opt + "_min": str(mn)})
    jobs = []
    for name, lang, text in PROGS:
        lines = text.rstrip("\n").split("\n")
        for var, counts in variants(lines, not quick):
            if quick and var.startswith("dev1") and int(var.split(":")[2]) not in (0, 2, 4, 6):
                continue
            src = inject(lines, counts)
            jobs.append((name, lang, src, var, base28))
        # start / end family: file start and end with 0..4 line breaks x the 32 settings x nl_max {0, 2, 3}
        for s0 in range(5):
            for e0 in range(5):
                src = inject(lines, {"start": s0, "end": e0})
                cf = []
                for n in ("0", "3"):
                    for d in se:
                        mn = int(list(d.values())[1])
                        if n != "0" and mn > int(n):
                            continue
                        cf.append(dict(d, nl_max=n))
                jobs.append((name, lang, src, "startend:%d,%d" % (s0, e0), cf))
        # every count option at every value <= nl_max
        for var, counts in variants(lines, False)[:7]:
            src = inject(lines, counts)
            cf = []
            for n in (2, 4):
                for o in cnt + ["nl_max_blank_in_func", "nl_typedef_blk_in", "nl_var_def_blk_in", "nl_max_after_func_body"]:
                    for val in range(1, n + 1):
                        cf.append({"nl_max": str(n), o: str(val)})
            if not quick:
                for n in (3,):
                    for o1, o2 in itertools.combinations(cnt, 2):
                        cf.append({"nl_max": "3", o1: "3", o2: "2"})
            for i in range(0, len(cf), 100):
                jobs.append((name, lang, src, "count:" + var, cf[i:i + 100]))
    ctx.log("jobs: %d" % len(jobs))
    agg = {"runs": 0, "nontrivial": 0}
    with run.Pool() as pool:
        a = job(jobs[0]); b = job(jobs[0])
        if (a["runs"], len(a["viol"])) != (b["runs"], len(b["viol"])):
            print("HARNESS-NONDETERMINISM"); raise SystemExit(2)
        for res in pool.imap(job, jobs, chunksize=2, deadline=ctx.deadline):
            agg["runs"] += res["runs"]; agg["nontrivial"] += res["nontrivial"]
            for w, files in res["viol"]:
                ctx.rep.violation(w, files, ["/verif/build/hooks/uncrustify", "-c", "config.cfg", "-l", files["lang"], "-f", "input"])
        if pool.cut:
            ctx.cut = True
    cov = {
        "evaluations": agg["runs"], "distinct_nontrivial": agg["nontrivial"],
        "states": len(jobs), "transitions": agg["runs"], "traces_validated_against_impl": agg["runs"],
        "rule": "%d programs x blank-line injections (uniform 0..6, every 1-deviation%s, 25 start/end combinations) x the 28-configuration product "
                "nl_max x eat_blanks_*, the 32 start/end settings x nl_max {0,3}, and %d count options at every value <= nl_max in {2,4}%s; "
                "non-trivial = output differs from input" % (len(PROGS), "" if quick else ", 2-deviations", len(cnt) + 4, "" if quick else " + pairs of count options"),
        "samples": [{"program": jobs[3][0], "variant": jobs[3][3], "config": jobs[3][4][9]}, {"program": "funcs", "variant": "startend:2,0", "config": se[6]}],
        "count_options": len(cnt),
    }
    return {"level": LEVEL, "coverage": cov,
            "assumptions": ["independent lexer masks comments and literals; backslash-newline is not a line break",
                            "configurations in which a count option exceeds nl_max are outside the proviso and are not generated"]}


def replay(path):
    import json
    w = json.load(open(os.path.join(path, "witness.json")))["witness"]
    print(json.dumps(w, indent=1))
    src = open(os.path.join(path, "input"), "rb").read()
    cfgt = open(os.path.join(path, "config.cfg")).read()
    lang = open(os.path.join(path, "lang")).read()
    r = run.unc(src, cfgt or None, lang)
    v = judge_text(src, r.out, lang, configs.parse_cfg(cfgt)) if r.rc == 0 else [("refused", "")]
    print("re-evaluated:", v[:3])
    return 1 if v else 0
