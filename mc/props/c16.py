"""C16  Bad configuration lines are diagnosed and have no other effect.

Registry-exhaustive: for EVERY option a two-line configuration (line 1 sets the option to a valid non-default value, line 2
is one bad line for the same option from the class alphabet of its type) is loaded by the ASan+UBSan build with
--update-config and compared with the configuration that consists of line 1 alone:
   no signal / sanitizer report / hang;  a diagnostic naming the file, line 2 and the option;  identical dump (no effect on
   this or any other option);  identical formatting of a small program.
Plus: directive lines with too few / unknown arguments, `using` and `include` edge cases incl. include cycles, all byte
strings of length <= 2 (thorough; quick: 44-byte alphabet) and all word sequences of length <= 3 over a 17-word alphabet as
whole configuration files (no crash, no hang), and the nl_max consistency rule for every blank-line count option x nl_max
1..3 x {equal, one more} x {config file, --set} with a non-existent source file (status 78 before the source is looked at).
"""
import itertools, os, re, shutil

from .. import bee, build, configs, registry, run
from . import c06

LEVEL = "model_checking"
FLAVOURS = ("hooks", "asan")
ENV = c06.SAN_ENV
SRC = b"int f(int a)\n{\n  if (a) { a = a+1; }\n  return a; // c\n}\n"


def valid_nondefault(o):
    for v in registry.alphabet(o):
        if v != o.default and not (o.type == "string"):
            return v
    return "word" if o.type == "string" else None


def bad_values(o, R):
    """-> list of (class name, text after 'name = ', names_option?)"""
    out = []
    iarf_opt, bool_opt, num_opt = "sp_arith", "indent_align_string", "indent_columns"
    if o.type in ("unsigned", "signed"):
        if o.minv is not None:
            out.append(("below-min", str(o.minv - 1)))
            out.append(("above-max", str(o.maxv + 1)))
            out.append(("far-above-max", str(o.maxv * 1000 + 7)))
        if o.type == "unsigned":
            out.append(("negative", "-1"))
        out += [("huge", "99999999999999999999"), ("float", "1.5"), ("word", "banana"), ("bool-word", "true"), ("iarf-word", "force"),
                ("digits-garbage", "4x"), ("dangling-ref", "no_such_option"), ("ref-other-type", iarf_opt if o.name != iarf_opt else "sp_assign"),
                ("ref-bool", bool_opt), ("neg-dangling-ref", "-no_such_option")]
        # references whose VALUE is outside the range (prelude sets the referenced option): plain and negated
        if o.name != "code_width" and o.maxv is not None and o.maxv < 10000:
            out.append(("ref-value-above-max", "code_width", "code_width = 10000"))
        if o.name != "indent_columns" and o.minv is not None and o.minv > -8:
            out.append(("negated-ref-value-below-min", "-indent_columns", "indent_columns = 8"))
        if o.name != "indent_columns" and o.maxv is not None and o.maxv < 8:
            out.append(("ref-value-above-small-max", "indent_columns", "indent_columns = 8"))
    elif o.type == "bool":
        out += [("number", "7"), ("word", "banana"), ("iarf-word", "force"), ("ref-other-type", num_opt), ("not-dangling-ref", "!no_such_option"),
                ("ref-iarf", iarf_opt), ("dangling-ref", "no_such_option")]
    elif o.type == "iarf":
        out += [("number", "7"), ("word", "maybe"), ("tokenpos-word", "lead_break"), ("ref-other-type", bool_opt), ("ref-num", num_opt), ("dangling-ref", "no_such_option")]
    elif o.type == "tokenpos":
        out += [("number", "7"), ("word", "banana"), ("bool-word", "true"), ("ref-other-type", iarf_opt)]
    elif o.type == "lineend":
        out += [("number", "7"), ("word", "banana"), ("ref-other-type", iarf_opt)]
    return out


def dump_of(cfg_path, d, extra=()):
    r = run.run_argv([build.binary("asan"), "-c", cfg_path, "--update-config"] + list(extra), env=ENV, cwd=d, timeout=20)
    return r


def crashy(r):
    err = r.err or b""
    if r.timeout:
        return "hang"
    if r.rc is not None and r.rc < 0:
        return "signal %d" % -r.rc
    if b"ERROR: AddressSanitizer" in err or b"runtime error:" in err or r.rc in (98, 99):
        return "sanitizer"
    if r.rc not in c06.OK_STATUS:
        return "status %s" % r.rc
    return None


def strip_dump(b):
    # the dump's header names the version only; keep everything
    return b


def option_job(name):
    R = bee.reg()
    o = R[name]
    res = {"opt": name, "runs": 0, "nontrivial": 0, "viol": [], "classes": 0}
    d = run.fresh_dir()
    try:
        v1 = valid_nondefault(o)
        if v1 is None:
            return res
        line1 = "%s = %s\n" % (name, ('"%s"' % v1) if o.type == "string" else v1)
        base = os.path.join(d, "base.cfg")
        open(base, "w").write(line1)
        rb = dump_of(base, d); res["runs"] += 1
        if crashy(rb) or rb.rc != 0:
            res["viol"].append(({"clause": "base-config-not-loaded", "opt": name, "type": o.type}, {"config.cfg": line1, "stderr": rb.err[-1500:]}))
            return res
        fb = run.run_argv([build.binary("asan"), "-c", base, "-l", "C", "-q"], stdin=SRC, env=ENV, cwd=d); res["runs"] += 1
        lines = [(bv[0], "%s = %s" % (name, bv[1]), name) + tuple(bv[2:3]) for bv in bad_values(o, R)]
        typo = name[:-1] + ("x" if name[-1] != "x" else "y")
        lines += [("unknown-name", "%s = %s" % (typo, v1), typo), ("unknown-name-prefix", "%s_ = %s" % (name, v1), name + "_"),
                  ("name-only", name, name), ("empty-value", name + " =", name)]
        if o.type != "string":
            lines.append(("empty-quoted", name + ' = ""', name))
        nodiag = [("unterminated-quote", '%s = "%s' % (name, v1)), ("long-value", "%s = %s" % (name, "9" * 10000 if o.type != "string" else "z" * 10000)),
                  ("nonascii-value", "%s = \xe9\xff" % name), ("nonascii-name", "%s\xe9 = %s" % (name, v1)), ("nul-in-line", "%s = \x00%s" % (name, v1))]
        for item in lines + [(c, b, None) for c, b in nodiag]:
            cls, bad, named = item[:3]
            prelude = item[3] + "\n" if len(item) > 3 else ""
            if o.type == "string" and cls in ("long-value", "nonascii-value", "nul-in-line", "unterminated-quote"):
                continue    # any text is a valid string value
            res["classes"] += 1
            p = os.path.join(d, "bad.cfg")
            text = prelude + line1 + bad + "\n"
            badline = "bad.cfg:%d" % (3 if prelude else 2)
            open(p, "wb").write(text.encode("latin-1"))
            r = dump_of(p, d); res["runs"] += 1
            files = {"config.cfg": text.encode("latin-1"), "base.cfg": prelude + line1, "stderr": r.err[-3000:], "class": cls}
            rb_here = rb
            if prelude:
                pb = os.path.join(d, "base2.cfg"); open(pb, "w").write(prelude + line1)
                rb_here = dump_of(pb, d); res["runs"] += 1
            w0 = {"opt": name, "type": o.type, "class": cls}
            c = crashy(r)
            if c:
                res["viol"].append((dict(w0, clause="crash-or-hang", what=c.split()[0], where=c06.where_from(r.err)), files))
                continue
            err = r.err.decode("latin-1")
            if named is not None:
                hit = [l for l in err.splitlines() if badline in l]
                if not hit:
                    res["viol"].append((dict(w0, clause="no-diagnostic-naming-file-and-line"), files))
                elif not any(named in l for l in hit):
                    res["viol"].append((dict(w0, clause="diagnostic-does-not-name-option"), files))
                else:
                    res["nontrivial"] += 1
            if r.rc == 0 and r.out != rb_here.out:
                a, b = rb_here.out.decode("latin-1").splitlines(), r.out.decode("latin-1").splitlines()
                diff = [(x, y) for x, y in zip(a, b) if x != y][:3]
                other = [y for x, y in diff if not y.startswith(name + " ")]
                files["dump-diff"] = repr(diff)
                res["viol"].append((dict(w0, clause="bad-line-changed-the-configuration", changed=("another-option" if other else "this-option")), files))
            elif r.rc != 0 and named is not None:
                res["viol"].append((dict(w0, clause="update-config-refused", status=r.rc), files))
            if cls in ("above-max", "word", "number", "dangling-ref", "unknown-name", "negative"):
                f2 = run.run_argv([build.binary("asan"), "-c", p, "-l", "C", "-q"], stdin=SRC, env=ENV, cwd=d); res["runs"] += 1
                c = crashy(f2)
                if c:
                    res["viol"].append((dict(w0, clause="crash-or-hang-formatting", what=c.split()[0]), files))
                elif (f2.rc, f2.out) != (fb.rc, fb.out):
                    res["viol"].append((dict(w0, clause="bad-line-changed-the-formatting"), files))
    finally:
        shutil.rmtree(d, True)
    return res


# ---------------------------------------------------------------------------

WORDS = ["indent_columns", "no_such_option", "set", "type", "file_ext", "macro-open", "include", "using", "=", ",", '"', "'", "\\",
         "#", "3", "word", "x" * 300]


def text_job(j):
    """whole configuration text: no crash, no hang (and nothing else is demanded)"""
    cid, text = j
    d = run.fresh_dir()
    try:
        p = os.path.join(d, "t.cfg")
        open(p, "wb").write(text)
        r = dump_of(p, d)
        c = crashy(r)
        v = []
        if c:
            v.append(({"clause": "crash-or-hang", "what": c.split()[0], "where": c06.where_from(r.err), "universe": cid.split(":")[0]},
                      {"config.cfg": text, "stderr": r.err[-3000:]}))
        return {"id": cid, "runs": 1, "viol": v, "nontrivial": int(bool(r.err.strip()))}
    finally:
        shutil.rmtree(d, True)


DIRECTIVES = [
    ("set-few", "set", True), ("set-one", "set WORD", True), ("set-unknown-token", "set NOSUCHTOKEN x", True), ("type-none", "type", True),
    ("file_ext-none", "file_ext", True), ("file_ext-one", "file_ext C", True), ("file_ext-unknown", "file_ext NOSUCHLANG .x", True),
    ("macro-open-none", "macro-open", True), ("macro-else-none", "macro-else", True), ("macro-close-none", "macro-close", True),
    ("include-none", "include", True), ("include-missing", "include no_such_file.cfg", True), ("include-dir", "include .", False),
    ("using-none", "using", True), ("using-word", "using x", True), ("using-one", "using 1", True), ("using-1.x", "using 1.x", True),
    ("using-x.1", "using x.1", True), ("using-x.y", "using x.y", True), ("using-4part", "using 1.2.3.4", False), ("using-huge", "using 99999999999999999999.1", True),
    ("using-neg", "using -1.-2", False), ("using-dots", "using ..", True), ("using-0.68", "using 0.68", False), ("using-trailing", "using 0.75 x", False),
]


# 'using MAJOR.MINOR[.PATCH]': every component position x number classes around the widths an implementation may convert with
# (3 digits, int, unsigned, 64 bit)
for _v in ("0", "9", "99", "999", "1000", "99999", "999999999", "1000000000", "2147483647", "2147483648", "4294967295", "4294967296",
           "9999999999", "10000000000", "9223372036854775807", "9223372036854775808", "18446744073709551616", "00000000000000000001"):
    DIRECTIVES += [("using-major-" + _v, "using %s.0" % _v, False), ("using-minor-" + _v, "using 0.%s" % _v, False),
                   ("using-patch-" + _v, "using 0.78.%s" % _v, False)]


def directive_job(j):
    name, line, want_diag = j
    d = run.fresh_dir()
    try:
        base = os.path.join(d, "base.cfg"); open(base, "w").write("indent_columns = 3\n")
        p = os.path.join(d, "bad.cfg"); open(p, "w").write("indent_columns = 3\n" + line + "\n")
        rb = dump_of(base, d)
        r = dump_of(p, d)
        v = []
        files = {"config.cfg": "indent_columns = 3\n" + line + "\n", "stderr": r.err[-3000:]}
        c = crashy(r)
        w0 = {"directive": name}
        if c:
            v.append((dict(w0, clause="crash-or-hang", what=c.split()[0], where=c06.where_from(r.err)), files))
        else:
            if want_diag and not r.err.strip():
                v.append((dict(w0, clause="no-diagnostic"), files))
            if r.rc == 0 and r.out != rb.out:
                v.append((dict(w0, clause="bad-line-changed-the-configuration"), files))
        return {"id": name, "runs": 2, "viol": v, "nontrivial": int(bool(r.err.strip()))}
    finally:
        shutil.rmtree(d, True)


def cycle_job(j):
    name, files_, entry = j
    d = run.fresh_dir()
    try:
        for fn, text in files_.items():
            open(os.path.join(d, fn), "w").write(text)
        r = dump_of(os.path.join(d, entry), d)
        v = []
        c = crashy(r)
        if c:
            v.append(({"clause": "crash-or-hang", "directive": name, "what": c.split()[0], "where": c06.where_from(r.err)},
                      {"config.cfg": files_[entry], "stderr": r.err[-3000:], "files": repr(files_)}))
        elif not r.err.strip():
            v.append(({"clause": "no-diagnostic", "directive": name}, {"config.cfg": files_[entry], "files": repr(files_)}))
        return {"id": name, "runs": 1, "viol": v, "nontrivial": 1}
    finally:
        shutil.rmtree(d, True)


def include_line_job(j):
    """a bad line AFTER an include directive must be reported with its own line number (relative and absolute include)"""
    how, inc_lines, pre_lines = j
    d = run.fresh_dir()
    try:
        inc = os.path.join(d, "inc.cfg")
        open(inc, "w").write("".join("# c%d\n" % i for i in range(inc_lines - 1)) + "indent_columns = 3\n")
        target = inc if how == "absolute" else "inc.cfg"
        bad = ["no_such_option_zz = 1", "indent_columns = 99", "nl_max = maybe"]
        text = "".join("# p%d\n" % i for i in range(pre_lines)) + "include %s\n" % target + "\n".join(bad) + "\n"
        p = os.path.join(d, "main.cfg"); open(p, "w").write(text)
        r = dump_of(p, d)
        v = []
        c = crashy(r)
        files = {"config.cfg": text, "stderr": r.err[-3000:], "files": "inc.cfg with %d lines" % inc_lines}
        if c:
            v.append(({"clause": "crash-or-hang", "directive": "include-" + how, "what": c.split()[0]}, files))
        else:
            err = r.err.decode("latin-1")
            for k, b in enumerate(bad):
                want = "main.cfg:%d" % (pre_lines + 2 + k)
                name = b.split()[0]
                if not any(want in l and name in l for l in err.splitlines()):
                    v.append(({"clause": "diagnostic-names-wrong-line-after-include", "directive": "include-" + how, "bad": name}, files))
                    break
        return {"id": "incl-%s-%d-%d" % (how, inc_lines, pre_lines), "runs": 1, "viol": v, "nontrivial": 1}
    finally:
        shutil.rmtree(d, True)


def count_options(R):
    out = []
    for o in R.values():
        if o.type == "unsigned" and o.name.startswith("nl_") and o.name != "nl_max" \
                and re.match(r"^(\(C#\) )?The (minimum )?number of (empty |blank )?(newlines|lines)", o.desc):
            out.append(o.name)
    return out


def nlmax_job(j):
    opt, nlmax, val, how = j
    d = run.fresh_dir()
    try:
        inconsistent = val > nlmax
        src = os.path.join(d, "no_such_source.c")
        if how == "file":
            p = os.path.join(d, "n.cfg"); open(p, "w").write("nl_max = %d\n%s = %d\n" % (nlmax, opt, val))
            argv = [build.binary("asan"), "-c", p, "-f", src]
        elif how == "file-rev":
            p = os.path.join(d, "n.cfg"); open(p, "w").write("%s = %d\nnl_max = %d\n" % (opt, val, nlmax))
            argv = [build.binary("asan"), "-c", p, "-f", src]
        else:
            argv = [build.binary("asan"), "-c", "-", "--set", "nl_max=%d" % nlmax, "--set", "%s=%d" % (opt, val), "-f", src]
        r = run.run_argv(argv, env=ENV, cwd=d)
        # second observation: source on stdin -> nothing may be formatted
        r2 = run.run_argv(argv[:-2] + ["-l", "C"], stdin=b"int x;\n", env=ENV, cwd=d)
        v = []
        w0 = {"opt": opt, "how": how, "nl_max": nlmax, "value": val}
        files = {"config.cfg": "nl_max = %d\n%s = %d\n" % (nlmax, opt, val), "stderr": r.err[-2000:], "argv": repr(argv)}
        c = crashy(r) or crashy(r2)
        if c:
            v.append((dict(w0, clause="crash-or-hang", what=c.split()[0]), files))
        elif inconsistent:
            if r.rc != 78 or r2.rc != 78:
                v.append((dict(w0, clause="inconsistent-blank-line-setting-not-refused", status=r.rc, status_stdin=r2.rc), files))
            elif opt.encode() not in (r.err + r.out) or b"int x" in r2.out:
                # (the message itself is printed on stdout by too_big_for_nl_max(); the statement does not say where it goes)
                v.append((dict(w0, clause="refusal-without-naming-option-or-with-formatted-output"), files))
        else:
            if r.rc == 78 or r2.rc != 0:
                v.append((dict(w0, clause="consistent-setting-refused", status=r.rc, status_stdin=r2.rc), files))
        return {"id": "%s/%d/%d/%s" % (opt, nlmax, val, how), "runs": 2, "viol": v, "nontrivial": int(inconsistent)}
    finally:
        shutil.rmtree(d, True)


def setlen_job(j):
    """--set NAME=VALUE (and --tracking KIND:FILE) with an argument of exactly L characters: a setting given on the command line is
    configuration text like any other - accepted, or refused with a diagnostic, never a crash"""
    kind, L = j
    d = run.fresh_dir()
    try:
        if kind == "set-number":
            arg = "indent_columns=" + "4".rjust(L - len("indent_columns="), "0")
            argv = [build.binary("asan"), "-c", "-", "--set", arg, "-l", "C"]
        elif kind == "set-unknown":
            arg = ("x" * (L - 2)) + "=1"
            argv = [build.binary("asan"), "-c", "-", "--set", arg, "-l", "C"]
        else:
            arg = "space:" + "t" * (L - len("space:"))
            argv = [build.binary("asan"), "-c", "-", "--tracking", arg, "-l", "C"]
        r = run.run_argv(argv, stdin=b"int x;\n", env=ENV, cwd=d)
        v = []
        c = crashy(r)
        if c:
            v.append(({"clause": "crash-or-hang", "what": c.split()[0], "directive": kind, "length_class": "256" if L == 256 else ("<256" if L < 256 else ">256")},
                      {"config.cfg": "", "stderr": r.err[-2000:], "argv": repr(argv)}))
        return {"id": "%s/%d" % (kind, L), "runs": 1, "viol": v, "nontrivial": int(r.rc != 0)}
    finally:
        shutil.rmtree(d, True)


def check(ctx):
    quick = ctx.tier == "quick"
    R = bee.reg()
    names = list(R)
    agg = {"runs": 0, "nontrivial": 0, "classes": 0}

    def take(res):
        agg["runs"] += res["runs"]; agg["nontrivial"] += res["nontrivial"]; agg["classes"] += res.get("classes", 0)
        for w, files in res["viol"]:
            files = dict(files); files.setdefault("input", SRC); files.setdefault("lang", "C")
            ctx.rep.violation(w, files, [build.binary("asan"), "-c", "config.cfg", "--update-config"])

    texts = []
    alpha = c06.A44 if quick else list(range(256))
    for a in range(256):
        texts.append(("bytes1:%02x" % a, bytes([a])))
    for a in alpha:
        for b in alpha:
            texts.append(("bytes2:%02x%02x" % (a, b), bytes([a, b])))
            if not quick or (a in b"=\"'\\# \n" or b in b"=\"'\\# \n"):
                texts.append(("optbytes2:%02x%02x" % (a, b), b"indent_columns" + bytes([a, b]) + b"3\n"))
    for n in (1, 2, 3):
        for ws in itertools.product(WORDS, repeat=n):
            texts.append(("words%d:%s" % (n, "|".join(w[:6] for w in ws)), (" ".join(ws) + "\n").encode()))
    cyc = [("include-self", {"a.cfg": "indent_columns = 3\ninclude a.cfg\n"}, "a.cfg"),
           ("include-2cycle", {"a.cfg": "include b.cfg\n", "b.cfg": "indent_columns = 3\ninclude a.cfg\n"}, "a.cfg"),
           ("include-3cycle", {"a.cfg": "include b.cfg\n", "b.cfg": "include c.cfg\n", "c.cfg": "include a.cfg\n"}, "a.cfg"),
           ("include-chain-ok-then-missing", {"a.cfg": "include b.cfg\n", "b.cfg": "include none.cfg\n"}, "a.cfg")]
    cnt = count_options(R)
    nlj = [(o, m, v, how) for o in cnt for m in (1, 2, 3) for v in (m, m + 1) for how in ("file", "file-rev", "set")]
    ctx.log("options: %d, texts: %d, directives: %d, nl_max cases: %d (count options: %d)" % (len(names), len(texts), len(DIRECTIVES), len(nlj), len(cnt)))
    with run.Pool() as pool:
        a = option_job(names[5]); b = option_job(names[5])
        if (a["runs"], len(a["viol"])) != (b["runs"], len(b["viol"])):
            print("HARNESS-NONDETERMINISM"); raise SystemExit(2)
        for res in pool.imap(option_job, names, chunksize=4, deadline=ctx.deadline):
            take(res)
        nopt = agg["runs"]
        incj = [(how, n, pre) for how in ("relative", "absolute") for n in (1, 2, 7, 20) for pre in (0, 3)]
        slj = [(k, L) for k in ("set-number", "set-unknown", "tracking") for L in (list(range(250, 262)) + [511, 512, 513, 1024, 4096, 70000] if quick else range(20, 1100))]
        for fn, jobs in ((directive_job, DIRECTIVES), (cycle_job, cyc), (include_line_job, incj), (setlen_job, slj), (nlmax_job, nlj), (text_job, texts)):
            for res in pool.imap(fn, jobs, chunksize=16, deadline=ctx.deadline):
                take(res)
        if pool.cut:
            ctx.cut = True
    cov = {
        "evaluations": agg["runs"], "distinct_nontrivial": agg["nontrivial"],
        "states": len(names) + len(texts) + len(DIRECTIVES) + len(cyc) + len(nlj), "transitions": agg["runs"],
        "traces_validated_against_impl": agg["runs"],
        "rule": "every option of the registry (%d) x every bad-line class of its type (%d (option, class) pairs; runs in the option universe: %d) + "
                "%d directive lines + %d include graphs + --set / --tracking arguments of every length around the 256-byte buffer + %d nl_max cases (%d blank-line count options x nl_max 1..3 x {equal, one more} x "
                "{file, file reversed, --set}) + %d whole-file texts (byte strings, word sequences); non-trivial = the run produced the "
                "expected diagnostic / refusal (an error path was executed)" % (len(names), agg["classes"], nopt, len(DIRECTIVES), len(cyc), len(nlj), len(cnt), len(texts)),
        "samples": [{"option": "indent_columns", "line2": "indent_columns = 17", "class": "above-max"}, {"text": repr(texts[700][1])},
                    {"nl_max_case": list(nlj[7])}, {"directive": DIRECTIVES[4][1]}],
        "options": len(names), "option_class_pairs": agg["classes"], "count_options": cnt,
    }
    return {"level": LEVEL, "coverage": cov,
            "assumptions": ["the --update-config dump shows the value of every option (so equal dumps = no effect on any option)",
                            "blank-line count options = unsigned nl_* options documented as 'The (minimum) number of newlines ...'"]}


def replay(path):
    import json
    w = json.load(open(os.path.join(path, "witness.json")))
    print(json.dumps(w, indent=1))
    build.build("asan")
    r = run.run_argv([build.binary("asan"), "-c", os.path.join(path, "config.cfg"), "--update-config"], env=ENV, cwd=path, timeout=20)
    print("status", r.rc, "timeout", r.timeout)
    print(r.err.decode("latin-1")[-1500:])
    c = crashy(r)
    ww = w["witness"]
    bad = bool(c)
    if not bad and os.path.exists(os.path.join(path, "base.cfg")):
        rb = run.run_argv([build.binary("asan"), "-c", os.path.join(path, "base.cfg"), "--update-config"], env=ENV, cwd=path, timeout=20)
        nlines = len(open(os.path.join(path, "config.cfg"), "rb").read().rstrip(b"\n").split(b"\n"))
        bad = rb.out != r.out or ("diagnostic" in ww.get("clause", "") and ("config.cfg:%d" % nlines) not in r.err.decode("latin-1"))
    print("re-evaluated:", "violated" if bad else "holds")
    return 1 if bad else 0
