"""C18  Indentation reflects block nesting.

Programs: every statement shape of G_stmt (depth 1 quick, depth 2 thorough; if / else chains, loops, do-while, switch / case,
bare blocks, unbraced bodies) in K&R and Allman rendering, as C, C++ and (wrapped in a class) Java, every statement on its
own line.  Original indentation: uniform {none, 1, 3, 8 columns, tab, space+tab} and EVERY 1-deviation (each line in turn
indented by each of 6 amounts; thorough: every 2-deviation on the depth-1 shapes), plus a comment line with odd indentation
in front of each statement in turn.
Configurations: indent_columns 1..16 x indent_with_tabs 0..2 x output_tab_size {2,4,8} (quick: {2,3,4,8} x {0,2} x {4,8}),
plus indent_braces / indent_brace / indent_switch_case / indent_case_brace variants (differential clause only).

Oracle: (1) closed form - with tabs expanded the output of every function equals its canonical rendering with
`indent_columns` columns per nesting level (siblings share a column, a nested block is exactly indent_columns deeper, a
closing brace sits under the statement that opened the block, case labels at the switch column, comments at the column of
the statement they precede); (2) differential - for every configuration, all original layouts of one program give the same
output (the original indentation of a statement's first line has no influence).
"""
import itertools, os, re

from .. import bee, configs, run
from ..universe import cgen

LEVEL = "model_checking"
INDENTS = ["", " ", "   ", "        ", "\t", " \t"]


def crender(node, style, col, ic, N=0):
    """canonical rendering in explicit columns.  ic = indent_columns, N = indent_brace (the braces of a statement - not
    of a function or of a bare block - are shifted N columns, their content sits indent_columns right of the brace).
    Documented points encoded here: case labels at the column of the switch's brace (indent_switch_case = 0); a brace block
    directly under a case label at the label's column (indent_case_brace = 0); an unbraced body one level deeper."""
    pad = lambda c: " " * c
    k = node[0]

    def head_body(head, body, c, lead=None):
        """-> (lines, column of the closing brace or None).  lead = text to put in front of head ('} ')"""
        first = (lead or "") + head
        fc = c if lead is None else c + N          # a line starting with '}' starts at the brace column
        own_line_brace = style == "allman"
        if body[0] == "bare" and body[1][0] == "block":
            # an unbraced body that is itself a block IS the braced body (the input merely wrote the brace on its own, deeper, line)
            body = ("braced", body[1][1])
            own_line_brace = True
        if body[0] == "bare":
            # indent_else_if = false (default, documented): an 'if' that is the unbraced body of an 'else' is treated as
            # 'else if' for indenting, i.e. it stays at the column of the 'else'
            deeper = 0 if (head == "else" and body[1][0] in ("if", "ifelse", "chain")) else ic
            return [pad(fc) + first] + crender(body[1], style, c + deeper, ic, N), None, False
        bc = c + N
        if not own_line_brace:
            out = [pad(fc) + first + " {"]
        else:
            out = [pad(fc) + first, pad(bc) + "{"]
        for x in body[1]:
            out += crender(x, style, bc + ic, ic, N)
        return out + [pad(bc) + "}"], bc, not own_line_brace

    if k in ("expr", "decl"):
        return [pad(col) + node[1]]
    if k == "empty":
        return [pad(col) + ";"]
    if k == "ret":
        return [pad(col) + "return;"]
    if k == "break":
        return [pad(col) + "break;"]
    if k in cgen.HEAD:
        return head_body(cgen.HEAD[k], node[1], col)[0]
    if k in ("ifelse", "chain"):
        if k == "ifelse":
            arms, heads = [node[1], node[2]], ["if (a)", "else"]
        else:
            arms = [b for b in node[1] if b != "else"]
            heads = ["if (a)"] + ["else if (b)"] * (len(arms) - 1)
            if node[1][-1] == "else":
                heads[-1] = "else"
        out, prev_join = [], False
        for h, b in zip(heads, arms):
            if out and prev_join:
                out.pop()                                       # the closing brace moves onto the line of the next head
                part, bc_, prev_join = head_body(h, b, col, lead="} ")
            else:
                part, bc_, prev_join = head_body(h, b, col)
            out += part
        return out
    if k == "do":
        lines, bc, joinable = head_body("do", node[1], col)
        if joinable:
            lines[-1] += " while (a);"
        else:
            lines.append(pad(col) + "while (a);")
        return lines
    if k == "block":
        out = [pad(col) + "{"]
        for x in node[1]:
            out += crender(x, style, col + ic, ic, N)
        return out + [pad(col) + "}"]
    if k == "switchi":
        bc = col + N
        out = [pad(col) + "switch (a) {"] if style != "allman" else [pad(col) + "switch (a)", pad(bc) + "{"]
        for lab, body in node[1]:
            first = crender(body[0], style, bc + ic, ic, N)
            out.append(pad(bc) + lab + " " + first[0].strip())     # the statement shares the label's line ...
            out += first[1:]                                       # ... its continuation is placed as if it stood on its own line
            for x in body[1:]:
                out += crender(x, style, bc + ic, ic, N)
        return out + [pad(bc) + "}"]
    if k == "switch":
        bc = col + N
        out = [pad(col) + "switch (a) {"] if style != "allman" else [pad(col) + "switch (a)", pad(bc) + "{"]
        for lab, body in node[1]:
            out.append(pad(bc) + lab)
            prev_kind = None
            for x in body:
                if x[0] == "block":
                    out += crender(x, style, bc, ic, N)
                elif x[0] == "break" and prev_kind == "block":
                    # a 'break' that directly follows the closing brace of a case block lines up with that brace
                    # (indent.cpp, issues #663 / #1366: deliberate)
                    out += crender(x, style, bc, ic, N)
                else:
                    out += crender(x, style, bc + ic, ic, N)
                prev_kind = x[0]
        return out + [pad(bc) + "}"]
    raise ValueError(k)


def canon(node, style, ic, java=False, N=0):
    return crender(node, style, (2 if java else 1) * ic, ic, N)


def wrap(fn_bodies, java):
    """fn_bodies: list of (name, [lines]) -> source text; indentation of wrapper lines is given by the caller"""
    raise NotImplementedError


def func_text(name, body_lines, ic, java):
    if java:
        pad = " " * ic
        return [pad + "void %s()" % name, pad + "{"] + body_lines + [pad + "}"]
    return ["void %s(void)" % name, "{"] + body_lines + ["}"]


def messy(lines, mode, k=None, amount=None, k2=None, amount2=None):
    """re-indent the lines of one function: uniform mode or deviations at line k (and k2)"""
    out = []
    for i, l in enumerate(lines):
        s = l.lstrip(" \t")
        if mode == "keep":
            ind = l[:len(l) - len(s)]
        else:
            ind = mode
        if k is not None and i == k:
            ind = amount
        if k2 is not None and i == k2:
            ind = amount2
        out.append(ind + s)
    return out


def expand(line, ts):
    out = []
    col = 0
    for ch in line:
        if ch == "\t":
            n = ts - (col % ts)
            out.append(" " * n); col += n
        else:
            out.append(ch); col += 1
    return "".join(out)


def split_funcs(text):
    """-> {name: [lines]} of the functions t<N> in an output"""
    res = {}
    cur = None
    for l in text.split("\n"):
        m = re.match(r"^\s*void (t\d+)\(", l)
        if m:
            cur = m.group(1)
            res[cur] = []
        if cur is not None:
            res[cur].append(l)
    return res


def job(j):
    """j = (lang, pack of (name, node, style, variant descr, input lines, comment_at), configs list, closed_form?)"""
    lang, pack, cfgs, closed = j
    java = lang == "JAVA"
    res = {"id": pack[0][0], "runs": 0, "nontrivial": 0, "funcs": 0, "viol": []}
    src_lines = ["class T", "{"] if java else ["int a, b, c;", "int f(int, int);"]
    for name, node, style, var, lines, cm in pack:
        src_lines += lines
    if java:
        src_lines.append("}")
    src = ("\n".join(src_lines) + "\n").encode()
    for st in cfgs:
        if java:
            st = dict(st, indent_class="true")      # (the class body is not indented by default: a style choice, not nesting)
        cfg = configs.text(st)
        ic = int(st.get("indent_columns", "8")); ts = int(st.get("output_tab_size", "8"))
        r = run.unc(src, cfg, lang); res["runs"] += 1
        if r.timeout or r.rc != 0:
            res["viol"].append(({"clause": "valid-program-refused", "lang": lang, "cfg": cfg.replace("\n", " ")},
                                {"input": src, "output": r.out, "stderr": r.err[-800:], "config.cfg": cfg, "lang": lang}))
            continue
        if r.out != src:
            res["nontrivial"] += 1
        got = split_funcs("\n".join(expand(l, ts) for l in r.out.decode("latin-1").split("\n")))
        for name, node, style, var, lines, cm in pack:
            res["funcs"] += 1
            body = canon(node, style, ic, java, int(st.get("indent_brace", "0")))
            if isinstance(cm, tuple):
                body = body[:cm[1]] + ["/* c */"] + body[cm[1]:]         # column-1 comment keeps column 1
            elif cm is not None:
                # the comment sits in front of body line cm, at that line's column
                tgt = body[cm]
                body = body[:cm] + [tgt[:len(tgt) - len(tgt.lstrip())] + "/* c */"] + body[cm:]
            want = func_text(name, body, ic, java)
            have = [l.rstrip() for l in got.get(name, [])]
            while have and have[-1] == "":
                have.pop()
            if java and have and have[-1].strip() == "}" and len(have) == len(want) + 1:
                have.pop()     # the class's closing brace follows the last function
            if closed and have != want and cm is not None and not isinstance(cm, tuple) and len(have) == len(want):
                # a comment in front of the 'break' that follows a case block: the break lines up with the block's brace (deliberate
                # special case), the comment is indented like an ordinary statement of the case - accept that column for the comment
                k = next((i for i, (a, b) in enumerate(zip(have, want)) if a != b), None)
                if k is not None and want[k].strip() == "/* c */" and k + 1 < len(want) and want[k + 1].strip() == "break;" \
                        and want[k - 1].strip() == "}" and have[k].strip() == "/* c */" \
                        and len(have[k]) - len(have[k].lstrip()) == len(want[k]) - len(want[k].lstrip()) + ic:
                    have = have[:k] + [want[k]] + have[k + 1:]
            if closed and have != want:
                bad = next((i for i, (a, b) in enumerate(zip(have, want)) if a != b), min(len(have), len(want)))
                hl = have[bad] if bad < len(have) else "<missing>"
                wl = want[bad] if bad < len(want) else "<missing>"
                kind = "column" if hl.strip() == wl.strip() else "text"
                # what the offending line is, and what surrounds it (descriptor for known findings)
                def first_word(i):
                    return (want[i].strip().split() or [""])[0].rstrip(";") if 0 <= i < len(want) else ""
                ctxd = {"line": first_word(bad), "prev": first_word(bad - 1), "next": first_word(bad + 1)}
                res["viol"].append(({"clause": "statement-not-at-the-column-of-its-nesting-depth" if kind == "column" else "line-structure-changed",
                                     "lang": lang, "style": style, "variant": var.split(":")[0], "indent_with_tabs": st.get("indent_with_tabs", "1"),
                                     "line": ctxd["line"], "prev": ctxd["prev"], "next": ctxd["next"]},
                                    {"input": src, "output": r.out, "config.cfg": cfg, "lang": lang,
                                     "detail": "function %s (%s, %s): line %d is %r, expected %r\nshape: %s" % (name, style, var, bad + 1, hl, wl, cgen.render_one(node))}))
    return res


def diff_job(j):
    """differential clause for configurations without a closed form: all layouts of one function pack give the same output"""
    lang, node, style, variants, cfgs = j
    res = {"id": "diff", "runs": 0, "nontrivial": 0, "funcs": 0, "viol": []}
    for st in cfgs:
        cfg = configs.text(st)
        outs = {}
        for var, lines in variants:
            src = ("\n".join(["int a, b, c;"] + lines) + "\n").encode()
            r = run.unc(src, cfg, lang); res["runs"] += 1
            if r.rc != 0 or r.timeout:
                continue
            res["funcs"] += 1
            outs[var] = (src, r.out)
        vals = list(outs.items())
        for var, (src, o) in vals[1:]:
            if o != vals[0][1][1]:
                res["nontrivial"] += 1
                res["viol"].append(({"clause": "original-indentation-influences-output", "lang": lang, "style": style, "variant": var.split(":")[0],
                                     "opts": ",".join("%s=%s" % kv for kv in sorted(st.items()) if kv[0] not in ("indent_columns", "indent_with_tabs", "output_tab_size"))},
                                    {"input": src, "output": o, "output_ref": vals[0][1][1], "input_ref": vals[0][1][0], "config.cfg": cfg, "lang": lang,
                                     "detail": "shape: %s, layouts %s vs %s" % (cgen.render_one(node), var, vals[0][0])}))
                break
    return res


def variants_of(node, style, java, thorough2=False):
    """-> list of (variant name, function lines (without name), comment_at)"""
    base = func_text("@", cgen.render(node, style, 2 if java else 1, "    "), 4, java)
    out = []
    for u in INDENTS:
        out.append(("uniform:%r" % u, messy(base, u), None))
    n = len(base)
    for k in range(n):
        for amt in INDENTS:
            out.append(("dev1:%d:%r" % (k, amt), messy(base, "keep", k, amt), None))
    if thorough2 and n <= 9:
        for k in range(n):
            for k2 in range(k + 1, n):
                for a1 in ("", "        ", "\t"):
                    for a2 in ("", "   ", " \t"):
                        out.append(("dev2:%d,%d" % (k, k2), messy(base, "keep", k, a1, k2, a2), None))
    # a comment line in front of each body statement line, oddly indented
    body_start = 2
    nb = len(base) - 3
    for c in range(nb):
        line = base[body_start + c].strip()
        if line.startswith(("}", "else", "{", "while (a);")):
            continue        # a comment between '}' and 'else' / before a lone brace is a different construct
        for amt in (" ", "     ", "\t\t\t"):
            lines = base[:body_start + c] + [amt + "/* c */"] + base[body_start + c:]
            out.append(("comment:%d:%r" % (c, amt), lines, c))
        # a comment in column 1 stays there (indent_col1_comment = false) - and must not drag the statement after it along
        lines = base[:body_start + c] + ["/* c */"] + base[body_start + c:]
        out.append(("comment1:%d" % c, lines, ("col1", c)))
    return out


def ends_in_open_if(n):
    """does the statement end in an else-less 'if' that is reached through unbraced bodies only?"""
    k = n[0]
    if k == "if":
        return True          # an else-less if takes a following else whether or not its own body is braced
    if k in ("while", "for", "forx"):
        return n[1][0] == "bare" and ends_in_open_if(n[1][1])
    if k == "ifelse":
        return n[2][0] == "bare" and ends_in_open_if(n[2][1])
    if k == "chain":
        arms = [b for b in n[1] if b != "else"]
        if n[1][-1] != "else":
            return True
        return arms[-1][0] == "bare" and ends_in_open_if(arms[-1][1])
    return False


def misparsed(n):
    """An AST whose TEXT means something else: an unbraced then-branch that ends in an open 'if' captures the 'else' that the AST
    attaches to the outer 'if' (dangling else).  Such shapes are legitimate inputs for the compile-equivalence checks, but the
    closed form below follows the AST, so they are not judged here."""
    k = n[0]
    if k == "ifelse" and n[1][0] == "bare" and ends_in_open_if(n[1][1]):
        return True
    if k == "chain":
        arms = [b for b in n[1] if b != "else"]
        for b in arms[:-1]:
            if b[0] == "bare" and ends_in_open_if(b[1]):
                return True
    for x in n[1:]:
        if isinstance(x, tuple) and x and x[0] == "bare" and misparsed(x[1]):
            return True
        if isinstance(x, tuple) and x and x[0] == "braced" and any(misparsed(y) for y in x[1]):
            return True
        if isinstance(x, list):
            for y in x:
                if isinstance(y, tuple) and y and y[0] in ("bare", "braced"):
                    if (y[0] == "bare" and misparsed(y[1])) or (y[0] == "braced" and any(misparsed(z) for z in y[1])):
                        return True
                elif isinstance(y, tuple) and len(y) == 2 and isinstance(y[1], list):
                    if any(isinstance(z, tuple) and misparsed(z) for z in y[1]):
                        return True
                elif isinstance(y, tuple) and y and isinstance(y[0], str) and misparsed(y):
                    return True
    return False


def check(ctx):
    quick = ctx.tier == "quick"
    shapes = [s for s in cgen.stmts(1 if quick else 2, 2) if s[0] not in ("decl", "expr", "empty", "ret") and not misparsed(s)]
    # compound statements inside a case body, followed by 'break' (a nested switch, braced loops / ifs): the statement after a
    # closing brace that does NOT close a case block stays in the column of its siblings
    e2, e5 = ("expr", "b = 2;"), ("expr", "b = 5;")
    inner = [("switch", [("case 2:", [e5, ("break",)]), ("default:", [("break",)])]), ("if", ("braced", [e5])), ("while", ("braced", [e5])),
             ("do", ("braced", [e5])), ("for", ("braced", [e5])), ("ifelse", ("braced", [e5]), ("braced", [e2]))]
    extra = []
    for c in inner:
        extra.append(("switch", [("case 1:", [e2, c, ("break",)]), ("default:", [("break",)])]))
        extra.append(("switch", [("case 1:", [c, ("break",)]), ("case 3:", [("block", [c, ("break",)])]), ("default:", [("break",)])]))
    shapes += extra
    if quick:
        ics, iwts, tss = ("2", "3", "4", "8"), ("0", "2"), ("4", "8")
    else:
        ics, iwts, tss = tuple(str(i) for i in range(1, 17)), ("0", "1", "2"), ("2", "4", "8")
    prod = [{"indent_columns": a, "indent_with_tabs": b, "output_tab_size": c} for a in ics for b in iwts for c in tss]
    # GNU-style brace offset (closed form: statement braces shifted by indent_brace, content indent_columns right of the brace)
    prod += [{"indent_columns": a, "indent_with_tabs": "0", "output_tab_size": "8", "indent_brace": n}
             for a in (("4",) if quick else ("2", "4", "8")) for n in (("2",) if quick else ("1", "2", "5"))]
    while len(prod) % 12 and quick:
        prod.append(dict(prod[-1], output_tab_size="4"))
    jobs = []
    nfun = 0
    d1 = set(cgen.render_one(x) for x in cgen.stmts(1, 2)) | set(cgen.render_one(x) for x in extra)   # 'extra' gets the full product
    small = [{"indent_columns": a, "indent_with_tabs": b, "output_tab_size": c} for a in ("2", "3", "4", "8") for b in ("0", "2") for c in ("4", "8")]
    for lang in ("C", "CPP", "JAVA"):
        java = lang == "JAVA"
        items, items2 = [], []          # depth-1 shapes (full configuration product) / depth-2 shapes (16-configuration product)
        for si, node in enumerate(shapes):
            depth1 = cgen.render_one(node) in d1
            if lang != "C" and (quick and si % 4 or not quick and si % 3):
                continue
            for style in ("kr", "allman"):
                vs = variants_of(node, style, java, thorough2=(not quick and depth1 and len(cgen.render_one(node)) < 60))
                for var, lines, cm in vs:
                    if quick and lang != "C" and not var.startswith(("uniform", "comment:")):
                        continue
                    if not depth1 and not var.startswith(("uniform", "comment")) and si % 5:
                        continue          # depth-2 shapes: all in uniform / comment layouts, every fifth with every 1-deviation
                    nm = "t%d" % nfun; nfun += 1
                    (items if depth1 else items2).append((nm, node, style, var, [l.replace("@", nm) for l in lines], cm))
        per = 30
        for its, pr in ((items, prod), (items2, small)):
            for i in range(0, len(its), per):
                pack = its[i:i + per]
                # each pack sees every configuration of its product
                for c0 in range(0, len(pr), 12):
                    jobs.append((lang, pack, pr[c0:c0 + 12], True))
    # option variants: differential clause
    djobs = []
    opt_variants = [{"indent_braces": "true"}, {"indent_switch_case": "4"}, {"indent_case_brace": "4"}, {"indent_braces_no_func": "true", "indent_braces": "true"},
                    {"indent_switch_body": "2"}, {"indent_else_if": "true"}, {"indent_label": "2"}, {"indent_min_vbrace_open": "4"}]
    for si, node in enumerate(shapes):
        if quick and si % 3:
            continue
        for style in ("kr", "allman"):
            full = not quick and cgen.render_one(node) in d1        # every 1-deviation for the depth-1 shapes, uniform layouts otherwise
            vs = [(v, [l.replace("@", "t0") for l in ls]) for v, ls, cm in variants_of(node, style, False) if cm is None and (v.startswith("uniform") or full)]
            cfgs = [dict(o, indent_columns="4", indent_with_tabs="0") for o in opt_variants]
            djobs.append(("C", node, style, vs, cfgs))
    ctx.log("closed-form jobs: %d (functions %d, configurations %d), differential jobs: %d" % (len(jobs), nfun, len(prod), len(djobs)))
    agg = {"runs": 0, "nontrivial": 0, "funcs": 0}
    with run.Pool() as pool:
        a = job(jobs[0]); b = job(jobs[0])
        if (a["runs"], len(a["viol"])) != (b["runs"], len(b["viol"])):
            print("HARNESS-NONDETERMINISM"); raise SystemExit(2)
        for fn, js in ((job, jobs), (diff_job, djobs)):
            for res in pool.imap(fn, js, chunksize=1, deadline=ctx.deadline):
                for k in agg:
                    agg[k] += res[k]
                for w, files in res["viol"]:
                    ctx.rep.violation(w, files, ["/verif/build/hooks/uncrustify", "-c", "config.cfg", "-l", files["lang"], "-f", "input"])
        if pool.cut:
            ctx.cut = True
    cov = {
        "evaluations": agg["runs"], "distinct_nontrivial": agg["nontrivial"],
        "states": nfun, "transitions": agg["runs"], "traces_validated_against_impl": agg["funcs"],
        "rule": "%d statement shapes x 2 renderings x original-indentation variants (6 uniform, every 1-deviation%s, comment-before-statement "
                "variants) = %d functions, packed 30 per file, x %d configurations (indent_columns x indent_with_tabs x output_tab_size), each "
                "function compared with its canonical rendering; plus the differential clause under %d brace/case option variants; "
                "distinct_nontrivial = executions whose output differs from the input (every file is mis-indented on purpose); function_config_pairs = (function, configuration) pairs judged" % (len(shapes), "" if quick else ", every 2-deviation on small shapes", nfun, len(prod), len(opt_variants)),
        "samples": [{"shape": cgen.render_one(shapes[7]), "variant": "dev1:3:'\\t'", "config": prod[3]}, {"shape": cgen.render_one(shapes[40])}],
        "functions": nfun, "configurations": len(prod), "function_config_pairs": agg["funcs"],
    }
    return {"level": LEVEL, "coverage": cov,
            "assumptions": ["closed form: canonical rendering with indent_columns per level under the default brace style (checked against the option documentation)",
                            "30 functions share one file"]}


def replay(path):
    import json
    w = json.load(open(os.path.join(path, "witness.json")))["witness"]
    print(json.dumps(w, indent=1))
    print(open(os.path.join(path, "detail")).read())
    src = open(os.path.join(path, "input"), "rb").read()
    cfgt = open(os.path.join(path, "config.cfg")).read()
    lang = open(os.path.join(path, "lang")).read()
    r = run.unc(src, cfgt or None, lang)
    old = open(os.path.join(path, "output"), "rb").read()
    refp = os.path.join(path, "output_ref")
    if os.path.exists(refp):
        bad = r.out != open(refp, "rb").read()
    else:
        bad = r.out == old          # same (wrong) output as recorded
    print("re-evaluated:", "violated" if bad else "holds (output changed)")
    return 1 if bad else 0
