"""C05  Formatting is a fixed point (history length 2 and 3: format, format again, once more).

strong claim: defaults + curated profiles:  F(F(x)) == F(x) byte for byte, F(F(F(x))) == F(F(x)), and --check passes on F(x)
weak claim  : every other configuration (all single deviations over the read set): F_c(x) exit 0  =>  F_c(F_c(x)) exit 0
"""
import os, re, shutil

from .. import bee, build, configs, registry, run
from ..universe import cgen, corpus, progsets
from . import c02

LEVEL = "model_checking"


def layouts(src):
    """uniform original-whitespace variants of a program (the original layout matters: 'ignore' options copy it)"""
    s = src.decode("latin-1")
    lines = s.split("\n")
    out = [("orig", s)]
    out.append(("flush-left", "\n".join(l.lstrip(" \t") if not l.lstrip().startswith("#") or True else l for l in lines)))
    out.append(("tabs", "\n".join(re.sub(r"^( {4})+", lambda m: "\t" * (len(m.group(0)) // 4), l) for l in lines)))
    out.append(("indent3", "\n".join(re.sub(r"^( {4})+", lambda m: "   " * (len(m.group(0)) // 4), l) for l in lines)))
    out.append(("indent-1-8", "\n".join((" " if i % 2 else "        ") + l.lstrip(" \t") if l.strip() and not l.lstrip().startswith("#") else l for i, l in enumerate(lines))))
    out.append(("trailing", "\n".join(l + "  \t" if l.strip() and not l.rstrip().endswith("\\") else l for l in lines)))
    wide = []
    for l in lines:
        if '"' in l or "'" in l or "/*" in l or "//" in l or l.lstrip().startswith("#"):
            wide.append(l)
        else:
            ind = len(l) - len(l.lstrip(" \t"))
            wide.append(l[:ind] + re.sub(r" ", "   ", l[ind:]))
    out.append(("wide-gaps", "\n".join(wide)))
    seen = set()
    res = []
    for n, t in out:
        if t not in seen:
            seen.add(t)
            res.append((n, t.encode("latin-1")))
    return res


def job(j):
    """j = (prog_id, src, lang, profile name, settings, weak?)"""
    prog_id, src, lang, pname, settings, weak = j
    res = {"prog": prog_id, "profile": pname, "runs": 0, "nontrivial": 0, "viol": [], "refused": 0, "timeouts": 0, "weak_runs": 0, "pruned": 0}
    cfg = configs.text(settings)

    def F(x, devs=(), hooks=()):
        res["runs"] += 1
        return run.unc(x, configs.text(settings, devs) or None, lang, hooks=hooks)

    r1 = F(src, hooks=("reads",))
    if r1.timeout:
        res["timeouts"] += 1
        return res
    if r1.rc != 0:
        res["refused"] += 1
        return res
    o1 = r1.out
    if o1 != src:
        res["nontrivial"] += 1
    r2 = F(o1)
    bad = None
    if r2.timeout or r2.rc != 0:
        bad = ("second-pass-refused", "")
    elif r2.out != o1:
        bad = ("second-pass-changes-output", first_diff_line(o1, r2.out))
    else:
        r3 = F(r2.out)
        if r3.timeout or r3.rc != 0:
            bad = ("third-pass-refused", "")
        elif r3.out != r2.out:
            bad = ("third-pass-changes-output", first_diff_line(r2.out, r3.out))
    if bad is None:
        # a tree that has just been formatted passes --check
        d = run.fresh_dir()
        try:
            fn = "f." + {"C": "c", "CPP": "cpp"}.get(lang, "c")
            open(os.path.join(d, fn), "wb").write(o1)
            rc = run.run_argv([build.binary("hooks"), "-c", run.cfg_path(cfg or None), "-l", lang, "--check", fn], cwd=d)
            res["runs"] += 1
            if rc.rc != 0:
                bad = ("check-fails-on-formatted-output", "")
        finally:
            shutil.rmtree(d, True)
    if bad:
        res["viol"].append(({"clause": bad[0], "profile": pname, "lang": lang, "_first_diff": bad[1]},
                            {"input": src, "config.cfg": cfg, "pass1": o1, "pass2": r2.out if not r2.timeout else b"", "lang": lang}))
    if weak and r1.reads is not None:
        R = bee.reg()
        s1 = configs.singles(R, settings, r1.reads, None)
        res["pruned"] = len(configs.singles(R, settings, None, None)) - len(s1)
        for d1 in s1:
            ra = F(src, (d1,))
            res["weak_runs"] += 1
            if ra.timeout or ra.rc != 0:
                continue
            rb = F(ra.out, (d1,))
            res["weak_runs"] += 1
            if rb.timeout:
                continue                       # hangs: C06
            if rb.rc != 0:
                res["viol"].append(({"clause": "weak-second-pass-refuses-first-pass-output", "profile": pname, "lang": lang,
                                     "dev": "%s=%s" % d1, "exit": rb.rc},
                                    {"input": src, "config.cfg": configs.text(settings, (d1,)), "pass1": ra.out, "stderr": rb.err[-1000:], "lang": lang}))
    return res


def first_diff_line(a, b):
    la, lb = a.split(b"\n"), b.split(b"\n")
    for i in range(min(len(la), len(lb))):
        if la[i] != lb[i]:
            return "line %d: %r -> %r" % (i + 1, la[i][:80], lb[i][:80])
    return "length %d -> %d lines" % (len(la), len(lb))


def check(ctx):
    quick = ctx.tier == "quick"
    P = configs.profiles()
    jobs = []
    progs = []
    f1 = progsets.stmt_funcs(1 if quick else 2, styles=("kr", "one"))
    shape_of = {}          # function name -> "shape / rendering" (identity of a finding must not depend on how functions are packed)
    for pr in progsets.pack_funcs(f1, 10):
        progs.append((pr[0], pr[1], "C"))
        for fname, shape, style in pr[2]["funcs"]:
            shape_of[fname] = "%s / %s" % (shape, style)
    for lang in ("C", "CPP"):
        for pr in progsets.units(lang):
            if pr[0] == "decl:intspell" and lang == "CPP":
                continue
            progs.append((pr[0] + "/" + lang, pr[1], lang))
    for pr in c02.expr_programs(["stmt", "arg"] if quick else ["stmt", "init", "arg", "ret", "cond"]):
        progs.append((pr[0], pr[1], "C"))
    # all nine languages: skeletons, the units written for the mod_ options and for the rarely consulted spacing options
    from ..universe import langunits, skel
    for name, lang, src in skel.all_skeletons():
        progs.append(("skel:" + name, src, lang))
    for lang in sorted(set(langunits.UNITS) | set(langunits.SP_UNITS)):
        for n, src, _m in langunits.units(lang) + langunits.sp_units(lang):
            progs.append((n, src, lang))
    # brace lines behind a '<<' expression (align_left_shift marks the lines of such a group "do not indent"): nested initialiser
    # elements and a braced case block after a shifted case label, on lines of their own
    progs.append(("unit:shift-braces/C", b"#define FLAGS 3\n#define A 1\nint sh1[3][2] = { FLAGS << 4,\n{ 1,\n2 },\n7 };\nstruct sp { int a; int b[2]; } sh2 = { 1 << 2,\n{ 5,\n6 } };\n"
                  b"int shf(int v)\n{\nswitch (v) {\ncase A << 2:\n{\nv++;\n}\nbreak;\n}\nreturn v << 1;\n}\n", "C"))
    nlay = 0
    for pid, src, lang in progs:
        lays = layouts(src)
        if quick and pid.startswith(("stmts:", "expr:")):
            lays = lays[:1] + lays[3:5]
        for ln, lsrc in lays:
            nlay += 1
            for pn, p in P.items():
                jobs.append((pid + "@" + ln, lsrc, lang, pn, p, False))
    # weak claim: all single deviations over the read set
    weak_progs = [p for p in progs if p[0].startswith(("decl:", "pp:"))] + [p for p in progs if p[0].startswith("stmts:")][::(6 if quick else 1)]
    for pid, src, lang in (weak_progs[::3] if quick else weak_progs):
        jobs.append((pid, src, lang, "defaults", {}, True))
    ncorpus = 0
    if not quick:
        for name, lang, src in corpus.files(langs=("C", "CPP"), max_bytes=40000):
            ncorpus += 1
            for pn, p in P.items():
                jobs.append(("corpus:" + name, src, lang, pn, p, False))
    ctx.log("programs=%d layouts=%d corpus files=%d jobs=%d" % (len(progs), nlay, ncorpus, len(jobs)))
    jobs.sort(key=lambda j: -int(j[5]))
    agg = {"runs": 0, "nontrivial": 0, "refused": 0, "timeouts": 0, "weak_runs": 0, "pruned": 0, "jobs": 0}
    samples = []
    with run.Pool() as pool:
        a = job(jobs[-1]); b = job(jobs[-1])
        if (a["runs"], len(a["viol"])) != (b["runs"], len(b["viol"])):
            print("HARNESS-NONDETERMINISM"); raise SystemExit(2)
        for res in pool.imap(job, jobs, chunksize=2, deadline=ctx.deadline - 20):
            agg["jobs"] += 1
            for k in ("runs", "nontrivial", "refused", "timeouts", "weak_runs", "pruned"):
                agg[k] += res[k]
            for w, files in res["viol"]:
                if res["prog"].startswith("corpus:"):
                    w["file"] = res["prog"][7:]
                else:
                    w["program"] = res["prog"].split("@")[0]
                    w["_layout"] = res["prog"].split("@")[1] if "@" in res["prog"] else ""
                    if w["program"].startswith("stmts:") and "pass1" in files:
                        # name the function that is not stable, by its shape (the identity of a finding must survive re-packing)
                        def segs(t):
                            out, cur = {}, None
                            for ln in t.split(b"\n"):
                                m = re.match(rb"^\s*void (t\d+)\(", ln)
                                if m:
                                    cur = m.group(1).decode(); out[cur] = []
                                if cur:
                                    out[cur].append(ln.rstrip())
                            return out
                        s1, s2 = segs(files["pass1"]), segs(files.get("pass2") or b"")
                        fn = next((f for f in s1 if [l for l in s1[f] if l] != [l for l in s2.get(f, []) if l]), None)
                        w["_pack"] = w["program"]
                        if fn in shape_of:
                            w["program"] = "stmt: " + shape_of[fn]
                        elif fn is None:
                            w["program"] = "stmt-pack-prelude (blank lines between the declarations in front of the functions)"
                priv = {k: w.pop(k) for k in list(w) if k.startswith("_")}
                files["detail.txt"] = repr(priv)
                ctx.rep.violation(w, files, ["/verif/build/hooks/uncrustify", "-c", "config.cfg", "-l", files["lang"], "-f", "input"])
            if len(samples) < 4 and res["runs"] >= 3 and agg["jobs"] % 97 == 0:
                samples.append({"program": res["prog"], "profile": res["profile"], "passes": 3})
        # trees: every ordered pair of {a file that ends inside a disabled region, inside a directive, a plain file, a C++ file}
        treefiles = [("off_tail", "c", b"int  a ;\n/* *INDENT-OFF* */\nint   tbl[] = { 1,\n     2 };\n"),
                     ("pp_tail", "c", b"int  b ;\n#define LASTLINE  1"),
                     ("plain", "c", b"int f( int x ){\n    if(x){ return 1 ; }\n    return 0;\n}\n"),
                     ("asm_tail", "c", b"int  c ;\n#pragma asm\n  mov  x\n"),
                     ("cls", "cpp", b"class  A{ public: int  x ; };\n")]
        tjobs = []
        for pn, p in sorted(P.items()):
            if quick and pn not in ("defaults", "ben", "linux"):
                continue
            for i, a in enumerate(treefiles):
                for k, b in enumerate(treefiles):
                    if i != k:
                        tjobs.append((pn, p, [a, b]))
            tjobs.append((pn, p, treefiles))
        for res in pool.imap(tree_job, tjobs, chunksize=2, deadline=ctx.deadline - 10):
            agg["jobs"] += 1
            for k in ("runs", "nontrivial", "refused", "timeouts"):
                agg[k] += res[k]
            for w, files in res["viol"]:
                ctx.rep.violation(w, files, ["/verif/build/hooks/uncrustify", "-c", "config.cfg", "--replace", "--no-backup"] + files["batch"].split())
        if pool.cut:
            ctx.cut = True
    cov = {
        "states": agg["jobs"], "transitions": agg["runs"], "traces_validated_against_impl": agg["runs"],
        "evaluations": agg["runs"], "distinct_nontrivial": agg["nontrivial"],
        "rule": "history format;format;format on every (program, layout, profile): generated statement packs, declaration and "
                "preprocessor units (C and C++), expression packs in 3-7 uniform original layouts x {defaults + 15 curated profiles}%s; "
                "weak claim on every single deviation over the read set; trees: every ordered pair (and the whole set) of five state-heavy files formatted by ONE "
                "invocation, then re-formatted file by file; non-trivial = first pass changes the input" % (
                    "" if quick else "; plus every C/C++ corpus file <= 40 kB x the same profile set"),
        "samples": samples or [{"note": "none"}], "jobs": agg["jobs"], "refused_first_pass": agg["refused"], "timeouts": agg["timeouts"],
        "weak_claim_runs": agg["weak_runs"], "single_deviations_pruned_by_read_set": agg["pruned"], "profiles": sorted(P),
        "history_length": 3,
    }
    return {"level": LEVEL, "coverage": cov,
            "assumptions": ["profile set = built-in defaults + /verif/profiles/*.cfg (curated from etc/*.cfg)",
                            "corpus pairs that are not fixed points are listed individually in known_findings.txt"]}


def tree_job(j):
    """A whole TREE formatted by ONE invocation (--replace --no-backup f1 f2 ...) passes --check file by file (one process
    per file) and is unchanged by a second single-file pass.  j = (profile name, settings, [(name, lang-ext, bytes)...])"""
    pname, settings, files = j
    res = {"prog": "tree", "profile": pname, "runs": 0, "nontrivial": 0, "viol": [], "refused": 0, "timeouts": 0, "weak_runs": 0, "pruned": 0}
    d = run.fresh_dir()
    try:
        cfg = configs.text(settings)
        cfgp = run.cfg_path(cfg or None)
        names = []
        for n, ext, data in files:
            fn = "%s.%s" % (re.sub(r"[^A-Za-z0-9]+", "_", n), ext)
            open(os.path.join(d, fn), "wb").write(data)
            names.append((fn, data))
        r = run.run_argv([build.binary("hooks"), "-c", cfgp, "-q", "--replace", "--no-backup"] + [fn for fn, _ in names], cwd=d, timeout=60)
        res["runs"] += 1
        if r.timeout or r.rc != 0:
            res["refused"] += 1
            return res
        for fn, data in names:
            cur = open(os.path.join(d, fn), "rb").read()
            if cur != data:
                res["nontrivial"] += 1
            alone = run.run_argv([build.binary("hooks"), "-c", cfgp, "-q", "-f", fn], cwd=d, timeout=60); res["runs"] += 1
            if alone.rc == 0 and alone.out != cur:
                # only a violation if the single-file run itself is stable (known single-file instabilities are judged elsewhere)
                again = run.run_argv([build.binary("hooks"), "-c", cfgp, "-q", "-l", "C" if fn.endswith(".c") else "CPP"], stdin=alone.out, cwd=d, timeout=60)
                res["runs"] += 1
                if again.rc == 0 and again.out == alone.out:
                    res["viol"].append(({"clause": "file-formatted-in-a-batch-is-not-a-fixed-point", "profile": pname, "file_class": fn.split("_")[0]},
                                        {"input": data, "output": cur, "output_alone": alone.out, "config.cfg": cfg, "lang": "C", "batch": " ".join(n for n, _ in names)}))
    finally:
        shutil.rmtree(d, True)
    return res


def replay(path):
    print(open(os.path.join(path, "witness.json")).read())
    return 0
