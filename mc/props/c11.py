"""C11  Files in one invocation are formatted independently of each other.

HE over file sequences: alphabet of small files, each built to leave some process-global state non-initial at its
end ("poker") or to be sensitive to such state ("sensor").  All ordered pairs (quick) and all ordered triples over
the most state-heavy files (thorough), x {-l given, not given} x delivery {positional --prefix, -F list,
--replace --no-backup, --check} x configurations.  Oracle: bytes produced for each file == bytes of a separate
invocation on that file alone with the same flags.
"""
import itertools, os, shutil

from .. import build, run

LEVEL = "model_checking"

F = {
    "plain.c": b"int  add( int a,int b ){\nreturn a+b ;\n}\n",
    "formatted.c": b"int x;\n",
    "empty.c": b"",
    "indentoff.c": b"int  a ;\n/* *INDENT-OFF* */\nint    b   ;\n",
    "pragmaasm.c": b"int  a ;\n#pragma asm\n   mov  a,b\n",
    "enddefine.c": b"int q ;\n#define LAST  1",
    "endpragma.c": b"int q ;\n_Pragma(\"once\")",
    "crlf.c": b"int  a ;\r\nint   b;\r\nvoid g( void ){}\r\n",
    "cr.c": b"int  a ;\rint   b;\r",
    "bom.c": b"\xef\xbb\xbfint  z ;\n",
    "utf16.c": b"\xff\xfe" + "int  z ;\n".encode("utf-16-le"),
    "ocpoke.c": b"void f(void)\n{\n    x = @[ a, b ];\n}\n",
    "ocsense.c": b"void f(void)\n{\n    [o foo:1 bar:2];\n}\n",
    "qt.cpp": b"void W::init()\n{\n    connect( a, SIGNAL( clicked( ) ), b, SLOT( go( int ) ) );\n    connect( a, SIGNAL(x(QList<int> >)), b, SLOT(y()));\n}\n",
    "qtbad.cpp": b"void W::init()\n{\n    connect(a, SIGNAL(x(), b);\n    int q = a ( 1 ) ;\n}\n"[:0] or b"#define Q SIGNAL(\nint  v ;\n",
    "includes.c": b"#include \"z.h\"\n#include \"a.h\"\n#include <stdio.h>\n#include \"m.h\"\nint i;\n",
    "includes2.c": b"#include \"b.h\"\n#include \"a.h\"\nint j;\n",
    "endspace.c": b"int a ;\nint b ; ",
    "endtab.c": b"int a ;\nint b ;\t",
    "endcr.c": b"int a ;\nint b ;\r",
    "strmulti.c": b"const char *s = \"abc\\\ndef\";",
    "c99arr.c": b"int  v[] = { [0]=1, [2] = 3 };\nstruct P p = { .x=1, .y = 2 };\n",
    "guard.h": b"#ifndef G_H\n#define G_H\n#ifdef A\nint a;\n#endif\nint  g ;\n#endif\n",
    "ppnest.c": b"#if A\n#ifdef B\nint  b;\n#endif\n#define Z 1\n#endif\nint z;\n",
    "macrofn.c": b"#define MAX(a,b) ((a)>(b)?(a):(b))\nint m = MAX( 1,2 );\n",
    "tmpl.cpp": b"template<class T> T mx( T a,T b ){ return a<b?b:a; }\nvector<vector<int> > v;\n",
    "cls.h": b"class A : public B {\npublic:\nA( ):x(0),y( 1 ){ }\nint  x;\nprivate: int y;\n};\n",
    "align.c": b"int a = 1;\nlong long bb = 22;\nchar c   = 3;\n\nvoid f(void)\n{\n    int x;\n    unsigned long yy;\n    x = 1;\n    yy  = 2;\n}\n",
    "cmt.c": b"int a; // one\nlong bbb;    /* two */\n/* multi\n * line */\nint c;\n",
    "nl.c": b"\n\n\nint a;\n\n\n\nint b;\n\n\n",
    "sw.c": b"void f(int a){switch(a){case 1:g();break;default:break;}}\n",
    "a.java": b"class A { int f( int a ){ return a+1 ; } }\n",
    "a.cs": b"class A { int P { get ; set ; } void f( ){ var x=1 ; } }\n",
    "a.d": b"int f( int a ){ return a+1 ; }\nversion(X){ int y ; }\n",
    "a.vala": b"class A : Object { public int f( int a ){ return a+1 ; } }\n",
    "a.p": b"main()\n{\n    new a = 1\n    print( a )\n}\n",
    "a.es": b"function f( a ){ return a+1 ; }\n",
    "a.m": b"@interface A : NSObject\n- (void)foo:(int)a bar:(int)b;\n@end\n@implementation A\n- (void)foo:(int)a bar:(int)b { [self foo:1 bar:2]; }\n@end\n",
    "a.mm": b"@implementation B\n- (int)v { std::vector<int> x; return [self w:x.size()]; }\n@end\n",
    "frag.c": b"    int  a ;\n    int b ;\n",
    "vbrace.c": b"void f(int a)\n{\n    if (a)\n        g();\n    else\n        for (;;)\n            h();\n}\n",
    "typedefs.c": b"typedef struct foo_s { int a; } foo_t;\nfoo_t * f( foo_t *p );\n",
}
F["qtbad.cpp"] = b"void W::init()\n{\n    QObject::connect( a, SIGNAL( x( int ) ), b, SLOT( y( int ) ) );\n}\n#define S2 SIGNAL(\n"

CFAMILY = [n for n in F if n.endswith((".c", ".h", ".cpp"))]

CFG = {
    "defaults": "",
    "rich": "mod_sort_include=true\nuse_options_overriding_for_qt_macros=true\npp_indent=add\npp_indent_count=2\n"
            "pp_space_after=add\npp_if_indent_code=true\nalign_var_def_span=2\nalign_assign_span=1\nalign_right_cmt_span=3\n"
            "indent_with_tabs=0\nindent_columns=3\nnl_max=2\nnl_end_of_file=force\nnl_end_of_file_min=1\nalign_var_struct_span=2\n"
            "align_pp_define_span=2\nmod_full_brace_if=add\nsp_inside_paren=remove\nutf8_bom=ignore\nnewlines=auto\n",
}
DELIV = ["prefix", "filelist", "replace", "check"]


def invoke(job):
    """job = (names tuple, lang or None, delivery, cfgname) -> (job, rc, {name: bytes or verdict}, stderr tail)"""
    names, lang, deliv, cfgname = job
    d = run.fresh_dir()
    try:
        uniq = []
        for i, n in enumerate(names):
            # the same alphabet file may occur twice in a history: give each occurrence its own path
            fn = n if n not in uniq else "dup%d_%s" % (i, n)
            uniq.append(fn)
            open(os.path.join(d, fn), "wb").write(F[n])
        argv = [build.binary("hooks"), "-c", run.cfg_path(CFG[cfgname] or None)]
        if lang:
            argv += ["-l", lang]
        stdin = b""
        if deliv == "prefix":
            argv += ["--prefix", "out"] + uniq
        elif deliv == "filelist":
            open(os.path.join(d, "list.txt"), "w").write("\n".join(uniq) + "\n")
            argv += ["--prefix", "out", "-F", "list.txt"]
        elif deliv == "replace":
            argv += ["--replace", "--no-backup"] + uniq
        else:
            argv += ["--check"] + uniq
        r = run.run_argv(argv, cwd=d)
        res = {}
        if deliv == "check":
            for fn in uniq:
                res[fn] = "PASS" if (b"PASS: " + fn.encode() + b" ") in r.out else ("FAIL" if (b"FAIL: " + fn.encode() + b" ") in r.err else "NONE")
        else:
            for fn in uniq:
                p = os.path.join(d, "out", fn) if deliv != "replace" else os.path.join(d, fn)
                res[fn] = open(p, "rb").read() if os.path.exists(p) else None
        return job, r.rc, [res[fn] for fn in uniq], r.err[-300:]
    finally:
        shutil.rmtree(d, True)


def check(ctx):
    quick = ctx.tier == "quick"
    names = list(F)
    langs = [None, "C", "CPP"] if quick else [None, "C", "CPP", "OC"]
    delivs = ["prefix", "check"] if quick else DELIV
    cfgs = list(CFG)
    transitions = 0
    evaluations = 0
    states = set()
    outcomes = {}
    samples = []
    differing = 0
    with run.Pool() as pool:
        # references: every file alone under every (lang, delivery, cfg)
        refjobs = [((n,), l, dv, c) for n in names for l in langs for dv in delivs for c in cfgs
                   if l is None or n in CFAMILY]
        ref = {}
        for job, rc, res, err in pool.imap(invoke, refjobs + refjobs[:50], chunksize=8):
            evaluations += 1
            key = (job[0][0],) + job[1:]
            if key in ref and ref[key] != (rc, res[0]):
                print("HARNESS-NONDETERMINISM: %r" % (key,)); raise SystemExit(2)
            ref[key] = (rc, res[0])
        usable = {k for k, v in ref.items() if v[0] in (0, 1) and v[1] is not None}   # rc 1 = --check FAIL
        refused = sorted({k[0] for k, v in ref.items() if k not in usable})
        ctx.log("alphabet=%d files, references=%d, single runs refused for: %s" % (len(names), len(ref), refused))

        def batches(n, pool_names):
            for l in langs:
                for dv in delivs:
                    for c in cfgs:
                        ok = [x for x in pool_names if (x, l, dv, c) in usable and (l is None or x in CFAMILY)]
                        for seq in itertools.product(ok, repeat=n):
                            yield (seq, l, dv, c)

        heavy = ["indentoff.c", "pragmaasm.c", "enddefine.c", "crlf.c", "bom.c", "utf16.c", "ocpoke.c", "ocsense.c", "qt.cpp",
                 "qtbad.cpp", "includes.c", "includes2.c", "guard.h", "ppnest.c", "endcr.c", "c99arr.c", "a.m", "a.p", "plain.c", "align.c"]
        plan = [batches(2, names)]
        if not quick:
            plan.append(batches(3, heavy))
        for gen in plan:
            for job, rc, res, err in pool.imap(invoke, gen, chunksize=16, deadline=ctx.deadline):
                evaluations += 1
                seq, l, dv, c = job
                transitions += len(seq)
                for i in range(len(seq)):
                    states.add((seq[:i + 1], l, dv, c) if len(seq) <= 2 else (seq[:i + 1], l))
                exp_rc = 1 if (dv == "check" and any(ref[(n, l, dv, c)][0] == 1 for n in seq)) else 0
                bad = []
                if rc != exp_rc:
                    bad.append(("batch-exit-status", "rc=%s expected %s" % (rc, exp_rc), len(seq) - 1))
                for i, n in enumerate(seq):
                    if res[i] != ref[(n, l, dv, c)][1]:
                        bad.append(("file-output-differs-from-single-run", n, i))
                        break
                outcomes["ok" if not bad else bad[0][0]] = outcomes.get("ok" if not bad else bad[0][0], 0) + 1
                if len(samples) < 4 and len(set(seq)) > 1 and evaluations % 53 == 0:
                    samples.append({"history": list(seq), "lang": l, "delivery": dv, "cfg": c, "exit": rc})
                for clause, what, pos in bad:
                    differing += 1
                    w = {"clause": clause, "file": seq[pos], "after": ",".join(seq[:pos]), "lang": str(l), "cfg": c, "delivery": dv}
                    files = {"history.txt": " ".join(seq), "stderr.txt": err}
                    for i, n in enumerate(seq):
                        files["in%d_%s" % (i, n)] = F[n]
                        if isinstance(res[i], bytes):
                            files["batch_out%d_%s" % (i, n)] = res[i]
                        if isinstance(ref[(n, l, dv, c)][1], bytes):
                            files["single_out%d_%s" % (i, n)] = ref[(n, l, dv, c)][1]
                    ctx.rep.violation(w, files, note="batch of %d files; output of file #%d differs from its single-file run" % (len(seq), pos))
            if pool.cut:
                ctx.cut = True
                break
    cov = {
        "states": len(states), "transitions": transitions, "traces_validated_against_impl": transitions,
        "evaluations": evaluations, "distinct_nontrivial": len(states),
        "rule": "all ordered pairs over the %d-file alphabet%s x lang in %s x delivery in %s x configs %s; every file of every batch is "
                "compared with its single-file run; a state is a distinct batch prefix with its flags" % (
                    len(names), "" if quick else " and all ordered triples over 20 state-heavy files", langs, delivs, cfgs),
        "samples": samples or [{"note": "none"}],
        "alphabet": names, "single_runs_refused": refused, "distinct_outcomes": outcomes,
        "history_length_completed": 2 if quick or ctx.cut else 3,
    }
    return {"level": LEVEL, "coverage": cov,
            "assumptions": ["reference = separate invocation of the same binary on the file alone, same flags",
                            "a poker without a matching sensor in the alphabet shows nothing: the alphabet pairs them per global (DESIGN 3/C11)"]}


def replay(path):
    print(open(os.path.join(path, "witness.json")).read())
    return 0
