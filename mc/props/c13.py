"""C13  In-place rewriting is all-or-nothing.

SFE: for every in-place scenario x input x pre-existing state, a recording run under
the ptrace injector lists the S system calls that touch the file's directory.  Then
  * every k in 0..S is a crash point (SIGKILL at syscall entry; for write calls also after a
    partial write of 1, n/2, n-1 bytes; and after the last call),
  * every call k x every errno of its menu is a fault point (and short writes *returned*),
  * pairs of faults k1 < k2 (second ordinal taken from the trace of the singly-faulted run).
After every execution the directory is compared with the all-or-nothing postcondition.
"""
import json, os, shutil, subprocess

from .. import build, run

LEVEL = "fault_enumeration"
NAME = "x.c"
SFX_B, SFX_M, SFX_T = ".unc-backup~", ".unc-backup.md5~", ".uncrustify"

ERRNO = {"EACCES": 13, "ENOSPC": 28, "EIO": 5, "EMFILE": 24, "EROFS": 30, "EDQUOT": 122,
         "EXDEV": 18, "EBUSY": 16, "ENOENT": 2, "EINTR": 4}
MENU = {
    "openat": ["EACCES", "ENOSPC", "EMFILE", "EROFS"], "open": ["EACCES", "ENOSPC", "EMFILE"],
    "write": ["ENOSPC", "EIO", "EDQUOT"], "close": ["EIO", "ENOSPC"],
    "rename": ["EACCES", "EXDEV", "EBUSY"], "unlink": ["EACCES"], "read": ["EIO"],
    "mkdir": ["EACCES", "ENOSPC"], "newfstatat": ["EACCES"], "stat": ["EACCES"], "fstat": ["EACCES"],
    "utime": ["EACCES"], "utimensat": ["EACCES"], "utimes": ["EACCES"], "lseek": ["EIO"],
}

SCEN = {
    "replace": (["--replace", "@X"], True),
    "replace-nobackup": (["--replace", "--no-backup", "@X"], False),
    "nobackup-positional": (["--no-backup", "@X"], False),
    "f-o-same": (["-f", "@X", "-o", "@X"], True),
    "f-o-same-nobackup": (["-f", "@X", "-o", "@X", "--no-backup"], False),
}


def inputs():
    big = b"".join(b"int  v%d=%d ;\n" % (i, i) for i in range(4200))     # > 64 KiB: several write calls
    return {
        "changes": b"void f( void ){\nint  a=1 ;\n}\n",
        "already-formatted": b"int a = 1;\n",
        "fails": b"void f(void) {\nint a = 1;\n",                          # unbalanced brace: exit 74
        "empty": b"",
        "big": big,
        # larger than one stdio buffer: fwrite() itself issues write() calls (errors surface in fwrite, not only in fclose)
        "medium": b"".join(b"int  m%d=%d ;\n" % (i, i) for i in range(400)),
    }


PRE = ["clean", "stale-backup", "stale-temp"]
STALE_B = b"OLD BACKUP TEXT\n"
STALE_M = b"0123456789abcdef0123456789abcdef  x.c\n"
STALE_T = b"STALE TEMP\n"


def setup(d, inp, pre):
    with open(os.path.join(d, NAME), "wb") as f:
        f.write(inp)
    if pre == "stale-backup":
        open(os.path.join(d, NAME + SFX_B), "wb").write(STALE_B)
        open(os.path.join(d, NAME + SFX_M), "wb").write(STALE_M)
    if pre == "stale-temp":
        open(os.path.join(d, NAME + SFX_T), "wb").write(STALE_T)


def execute(job):
    """job = (scen, inp_name, pre, acts) -> (job, rc, trace rows, dir snapshot, stderr tail)"""
    scen, inp_name, pre, acts = job
    inp = INPUTS[inp_name]
    d = run.fresh_dir()
    try:
        setup(d, inp, pre)
        x = os.path.join(d, NAME)
        tp = os.path.join(run.scratch(), "trace-%d" % os.getpid())
        argv = [os.path.join(build.BUILD_ROOT, "sysfi"), "--dir", d, "--trace", tp]
        for a in acts:
            argv += ["--act", a]
        argv += ["--", build.binary("hooks"), "-c", "-", "-q", "-l", "C"] + [x if t == "@X" else t for t in SCEN[scen][0]]
        r = run.run_argv(argv, cwd=d, timeout=30)
        rows = []
        if os.path.exists(tp):
            for ln in open(tp, errors="replace").read().splitlines():
                f = ln.split("\t")
                if len(f) >= 4:
                    rows.append((f[1], f[2].replace(d, "D"), f[3]))
            os.unlink(tp)
        snap = {}
        for fn in sorted(os.listdir(d)):
            p = os.path.join(d, fn)
            snap[fn] = open(p, "rb").read() if os.path.isfile(p) else b"<dir>"
        return job, (None if r.timeout else r.rc), rows, snap, r.err[-300:]
    finally:
        shutil.rmtree(d, True)


INPUTS = inputs()


def role(path):
    if " -> " in path:
        return "temp->file"
    for sfx, nm in ((SFX_M, "md5"), (SFX_B, "backup"), (SFX_T, "temp")):
        if path.endswith(sfx) or path.endswith(sfx + "/"):
            return nm
    if path.rstrip("/").endswith(NAME):
        return "file"
    return "dir"


def judge(job, rc, snap, ref, backups):
    """Returns list of violated clause names."""
    scen, inp_name, pre, acts = job
    orig = INPUTS[inp_name]
    fmt_rc, fmt = ref[inp_name]
    cur = snap.get(NAME)
    bad = []
    allowed = [orig] + ([fmt] if fmt_rc == 0 else [])
    if cur not in allowed:
        bad.append("file-neither-original-nor-formatted")
    if backups and cur != orig and snap.get(NAME + SFX_B) != orig:
        bad.append("original-gone-without-backup")
    killed = any(a.split(":")[1].startswith("kill") for a in acts)
    if not killed:
        if rc is None:
            bad.append("hang")
        elif rc == 0:
            if fmt_rc != 0:
                bad.append("exit-0-although-formatting-fails")
            elif cur != fmt:
                bad.append("exit-0-but-file-not-formatted")
            elif NAME + SFX_T in snap and not acts and pre != "stale-temp-keep":
                bad.append("exit-0-but-temp-file-left")
        elif rc not in (1, 64, 65, 66, 67, 68, 69, 70, 71, 72, 73, 74, 75, 76, 77, 78):
            bad.append("undocumented-exit-%s" % rc)
        if not acts and fmt_rc == 0 and rc != 0:
            bad.append("clean-run-fails")
    return bad


def act_desc(a, rows_ref):
    k, kind = a.split(":")[0:2]
    k = int(k)
    nm, path = (rows_ref[k][0], rows_ref[k][1]) if k < len(rows_ref) else ("end", "")
    arg = a.split(":")[2] if a.count(":") >= 2 else ""
    if kind == "errno":
        arg = [n for n, v in ERRNO.items() if str(v) == arg][0]
    elif kind in ("short", "killshort"):
        arg = "partial"
    return "%s(%s:%s)%s" % (kind, nm, role(path) if path else "", ("=" + arg) if arg else "")


def check(ctx):
    quick = ctx.tier == "quick"
    subprocess.run(["gcc", "-O2", "-w", "-o", os.path.join(build.BUILD_ROOT, "sysfi"),
                    os.path.join(os.path.dirname(os.path.dirname(__file__)), "sysfi.c")], check=True)
    scen_l = list(SCEN)
    inp_l = ["changes", "already-formatted", "fails", "medium"] if quick else list(INPUTS)
    pre_l = ["clean", "stale-backup"] if quick else PRE
    evaluations = 0
    fired = set()
    outcomes = {}
    samples = []
    stats = {"recordings": 0, "kills": 0, "partial_write_kills": 0, "single_faults": 0, "fault_pairs": 0,
             "syscalls_per_scenario": {}}
    with run.Pool() as pool:
        ref = {}
        for n in INPUTS:
            r = run.unc(INPUTS[n], None, "C")
            ref[n] = (r.rc, r.out)
        if ref["changes"][0] != 0 or ref["fails"][0] == 0 or ref["changes"][1] == INPUTS["changes"] \
                or ref["already-formatted"][1] != INPUTS["already-formatted"]:
            raise SystemExit("HARNESS-ERROR: C13 reference inputs do not behave as labelled")
        # phase 1: recordings (twice: replay self-test)
        base = [(s, i, p, ()) for s in scen_l for i in inp_l for p in pre_l]
        rec = {}
        for job, rc, rows, snap, err in pool.imap(execute, base + base, chunksize=1):
            evaluations += 1
            key = job[:3]
            if key in rec and (rec[key][0], [r[:2] for r in rec[key][1]], rec[key][2]) != (rc, [r[:2] for r in rows], snap):
                print("HARNESS-NONDETERMINISM: recording of %r differs between two runs" % (key,))
                raise SystemExit(2)
            rec[key] = (rc, rows, snap)
        stats["recordings"] = len(rec)

        def report(job, rc, rows, snap, err, rows_ref):
            bad = judge(job, rc, snap, ref, SCEN[job[0]][1])
            desc = [act_desc(a, rows_ref) for a in job[3]]
            outcomes[(rc, tuple(bad))] = outcomes.get((rc, tuple(bad)), 0) + 1
            for clause in bad:
                w = {"clause": clause, "scenario": job[0], "input": job[1], "pre": job[2],
                     "actions": "+".join(desc)}
                files = {"input.c": INPUTS[job[1]], "trace.txt": "\n".join("\t".join(r) for r in rows),
                         "dir_after.json": json.dumps({k: v.decode("latin-1")[:400] for k, v in snap.items()}, indent=1),
                         "stderr.txt": err}
                argv = ["/verif/build/sysfi", "--dir", "$PWD"] + sum((["--act", a] for a in job[3]), []) + \
                       ["--", "/verif/build/hooks/uncrustify", "-c", "-", "-q", "-l", "C"] + SCEN[job[0]][0]
                ctx.rep.violation(w, files, argv, note="exit status %r; pre-state %s" % (rc, job[2]))
            return bad

        for key, (rc, rows, snap) in rec.items():
            report(key + ((),), rc, rows, snap, b"", rows)
            stats["syscalls_per_scenario"]["/".join(key)] = len(rows)

        # phase 2: all kill points and all single faults
        jobs = []
        for key, (rc, rows, snap) in rec.items():
            S = len(rows)
            for k in range(S):
                jobs.append(key + (("%d:kill" % k,),))
                nm, path, res = rows[k]
                if nm == "write":
                    n = int(res.split()[0])
                    for part in sorted({1, n // 2, n - 1}):
                        if 0 < part < n:
                            jobs.append(key + (("%d:killshort:%d" % (k, part),),))
                            if not (quick and part == n // 2):
                                jobs.append(key + (("%d:short:%d" % (k, part),),))
                for e in MENU.get(nm, ["EIO"]):
                    jobs.append(key + (("%d:errno:%d" % (k, ERRNO[e]),),))
            if S:
                jobs.append(key + (("%d:killafter" % (S - 1),),))
        ctx.log("recordings=%d, single-deviation executions planned=%d" % (len(rec), len(jobs)))
        singles = {}
        for job, rc, rows, snap, err in pool.imap(execute, jobs, chunksize=2, deadline=ctx.deadline):
            evaluations += 1
            rows_ref = rec[job[:3]][1]
            a = job[3][0]
            k, kind = int(a.split(":")[0]), a.split(":")[1]
            # divergence detection: the prefix before the injection point must equal the recording
            if [r[:2] for r in rows[:k]] != [r[:2] for r in rows_ref[:k]]:
                print("HARNESS-ERROR: trace prefix diverged before injection point in %r" % (job,))
                raise SystemExit(2)
            if kind.startswith("kill"):
                stats["kills" if kind != "killshort" else "partial_write_kills"] += 1
                if rc != 137:
                    print("HARNESS-ERROR: kill did not kill in %r (rc=%r)" % (job, rc)); raise SystemExit(2)
            else:
                stats["single_faults"] += 1
                singles[job] = rows
            fired.add((job[0], job[1], job[2], act_desc(a, rows_ref)))
            bad = report(job, rc, rows, snap, err, rows_ref)
            if len(samples) < 8 and (bad or evaluations % 997 == 0):
                samples.append({"scenario": job[0], "input": job[1], "pre": job[2],
                                "actions": [act_desc(x, rows_ref) for x in job[3]], "exit": rc, "violated": bad})
        if pool.cut:
            ctx.cut = True
        pairs_done = False
        if not ctx.cut:
            # phase 3: fault pairs; second ordinal from the singly-faulted trace
            # (quick: for the inputs "changes" and "medium" from the clean pre-state; thorough: everything)
            jobs = []
            for job, rows in singles.items():
                if quick and not (job[1] in ("changes", "medium") and job[2] == "clean"):
                    continue
                k1 = int(job[3][0].split(":")[0])
                for k2 in range(k1 + 1, len(rows)):
                    nm = rows[k2][0]
                    for e in MENU.get(nm, ["EIO"])[:2]:
                        jobs.append(job[:3] + ((job[3][0], "%d:errno:%d" % (k2, ERRNO[e])),))
                    jobs.append(job[:3] + ((job[3][0], "%d:kill" % k2),))
            ctx.log("fault pairs planned=%d" % len(jobs))
            for job, rc, rows, snap, err in pool.imap(execute, jobs, chunksize=4, deadline=ctx.deadline):
                evaluations += 1
                stats["fault_pairs"] += 1
                rows1 = singles[job[:3] + ((job[3][0],),)]
                k2 = int(job[3][1].split(":")[0])
                if [r[:2] for r in rows[:k2]] != [r[:2] for r in rows1[:k2]]:
                    print("HARNESS-ERROR: trace prefix diverged before 2nd injection point in %r" % (job,))
                    raise SystemExit(2)
                rows_ref = rec[job[:3]][1]
                d1 = act_desc(job[3][0], rows_ref)
                d2 = act_desc(job[3][1], rows1)
                bad = judge(job, rc, snap, ref, SCEN[job[0]][1])
                outcomes[(rc, tuple(bad))] = outcomes.get((rc, tuple(bad)), 0) + 1
                for clause in bad:
                    w = {"clause": clause, "scenario": job[0], "input": job[1], "pre": job[2], "actions": d1 + "+" + d2}
                    ctx.rep.violation(w, {"input.c": INPUTS[job[1]], "trace.txt": "\n".join("\t".join(r) for r in rows),
                                          "dir_after.json": json.dumps({k: v.decode("latin-1")[:400] for k, v in snap.items()}, indent=1)},
                                      note="exit status %r; actions %r" % (rc, job[3]))
            pairs_done = not pool.cut and not quick
            if pool.cut:
                ctx.cut = True
    cov = {
        "evaluations": evaluations, "distinct_nontrivial": len(fired),
        "rule": "every relevant system call (path or fd inside the file's directory) of each scenario x input x pre-state "
                "is a kill point and a fault point (errno menu per call, short writes); distinct_nontrivial counts distinct "
                "(scenario, input, pre-state, injected action at a call that really executed) combinations, i.e. the fault fired",
        "samples": samples or [{"note": "no sample collected"}],
        "scenarios": scen_l, "inputs": inp_l, "pre_states": pre_l,
        "deviation_bound_completed": 2 if pairs_done else 1,
        "pairs_scope": "all singles" if not quick else "singles of inputs changes/medium from the clean pre-state (bound 2 completed for that slice only)",
        "distinct_outcomes": {"exit=%s violated=%s" % (k[0], list(k[1])): v for k, v in outcomes.items()},
    }
    cov.update(stats)
    return {"level": LEVEL, "coverage": cov,
            "assumptions": ["crash = SIGKILL at a system-call boundary (plus partial writes); power loss / unsynced data not modelled",
                            "an injected error that libc or uncrustify masks and that leaves the postcondition intact is not a failure "
                            "('any failure yields non-zero' is checked as: exit 0 implies the postcondition was achieved)"]}


def replay(path):
    print(open(os.path.join(path, "witness.json")).read())
    print(open(os.path.join(path, "trace.txt")).read())
    return 0
