"""C17  Whitespace hygiene of the output.

Enumerated: statement packs, declaration / preprocessor units, C / C++ / ObjC / Java skeletons x original layouts (trailing
blanks on every line, blank lines holding blanks and tabs, tab-after-space indentation, tabs between tokens, 1/3/8-column
and tab indentation) x the FULL PRODUCT of the tab family
   indent_with_tabs {0,1,2} x indent_columns {1,2,3,4,8} x output_tab_size {1,2,3,4,8} x align_with_tabs x align_keep_tabs x
   pp_indent_with_tabs {-1,0,1,2} x indent_cmt_with_tabs              (2400 configurations; quick: a 240-configuration sub-product)
with alignment switched on, the end-of-file family nl_end_of_file (4) x nl_end_of_file_min {0..3} x six input endings, and every
single deviation over the indent_* / align_* / pp_* / cmt_* layout options the run reads, on five tab bases (three uniform, two where code and directives are governed differently).

Oracle (comments, literals masked by the independent lexer): no line ends in a blank; leading whitespace has no tab when the
governing option is 0 and no space before a tab when it is 1 or 2 (directive lines incl. their continuation lines are governed by
pp_indent_with_tabs, -1 = indent_with_tabs); the file ends as nl_end_of_file / nl_end_of_file_min prescribe.
"""
import itertools, os, re

from .. import bee, configs, run
from ..lex import cfamily
from ..universe import cgen, progsets, skel
from . import c05

LEVEL = "model_checking"
ALIGN_ON = {"align_assign_span": "1", "align_right_cmt_span": "3", "align_var_def_span": "1", "align_pp_define_span": "2", "align_nl_cont": "1"}
LEXLANG = {"C": "C", "CPP": "CPP", "OC": "OC", "JAVA": "JAVA", "CS": "CS", "D": "D", "VALA": "VALA"}


def masked(out, lang):
    """-> bytearray flags: 1 = byte inside a comment or literal"""
    lx = cfamily.lex(out, LEXLANG[lang])
    m = bytearray(len(out))
    for a, b in list(lx.comment_spans) + list(lx.literal_spans):
        for i in range(a, min(b, len(out))):
            m[i] = 1
    return m, lx.ok


def judge_text(src, out, lang, st):
    """-> list of (clause, detail)"""
    v = []
    m, ok = masked(out, lang)
    iwt = int(st.get("indent_with_tabs", "1"))
    pp = int(st.get("pp_indent_with_tabs", "-1"))
    pp = iwt if pp < 0 else pp
    pos = 0
    in_dir = False
    lines = out.split(b"\n")
    for ln_no, raw in enumerate(lines):
        line = raw[:-1] if raw.endswith(b"\r") else raw
        start, end = pos, pos + len(line)
        pos += len(raw) + 1
        starts_masked = start < len(m) and m[start] == 1 and start > 0 and m[start - 1] == 1
        # trailing blank
        blank_ok = st.get("indent_single_newlines", "false") == "true" and not line.strip(b" \t")    # blank-line indentation requested
        if line and line[-1:] in (b" ", b"\t") and not m[end - 1] and not blank_ok:
            v.append(("line-ends-in-blank", "line %d: %r" % (ln_no + 1, line[-30:])))
        stripped = line.lstrip(b" \t")
        lead = line[:len(line) - len(stripped)]
        is_dir = in_dir or (stripped.startswith(b"#") and not starts_masked) or (stripped.startswith(b"%:") and not starts_masked)
        # a directive continues while the physical line ends in a backslash
        in_dir = is_dir and line.rstrip(b" \t").endswith(b"\\")
        if not stripped and blank_ok and line and not starts_masked:
            # an indented blank line (indent_single_newlines) is indentation and nothing else: the code rule applies to all of it
            if iwt == 0 and b"\t" in line:
                v.append(("tab-in-indentation-with-tabs-off", "line %d (blank line) first=blank: %r" % (ln_no + 1, line)))
            elif iwt in (1, 2) and b" \t" in line:
                v.append(("space-before-tab-in-indentation", "line %d (blank line): %r" % (ln_no + 1, line)))
            continue
        if starts_masked or not stripped:
            continue
        gov = pp if is_dir else iwt
        if gov == 0 and b"\t" in lead:
            fc = start + len(lead)
            first = "comment" if fc < len(m) and m[fc] else "code"
            v.append(("tab-in-indentation-with-tabs-off", "line %d (%s) first=%s: %r" % (ln_no + 1, "directive" if is_dir else "code", first, lead)))
        elif gov in (1, 2) and b" \t" in lead:
            v.append(("space-before-tab-in-indentation", "line %d (%s): %r" % (ln_no + 1, "directive" if is_dir else "code", lead)))
    # end of file
    eof = st.get("nl_end_of_file", "ignore")
    mn = int(st.get("nl_end_of_file_min", "0"))
    nlmax = int(st.get("nl_max", "0"))

    def trail(b):
        t = b.replace(b"\r\n", b"\n").replace(b"\r", b"\n")
        body = t.rstrip(b"\n")
        return len(t) - len(body), body
    got, gbody = trail(out)
    # blanks after the last line break of the input are not a line: the input "ends" before them
    had, sbody = trail(re.sub(rb"(\n|\r)[ \t]+$", rb"\1", src))
    if not gbody.strip():
        return v
    # What the statement fixes (and nothing more): remove -> no final line break; force with a minimum m > 0 -> exactly m;
    # add with m > 0 -> at least m; ignore (and add/force without a minimum) -> a final line break is neither invented nor lost.
    if eof == "remove":
        if got != 0:
            v.append(("file-end-not-as-configured", "nl_end_of_file=remove but %d line breaks at the end" % got))
    elif eof == "force" and mn > 0:
        if got != mn:
            v.append(("file-end-not-as-configured", "nl_end_of_file=force min=%d: output ends with %d line breaks" % (mn, got)))
    elif eof == "add" and mn > 0:
        if got < mn:
            v.append(("file-end-not-as-configured", "nl_end_of_file=add min=%d: output ends with %d line breaks" % (mn, got)))
    else:
        if (had == 0) != (got == 0) and eof == "ignore":
            v.append(("file-end-not-as-configured", "nl_end_of_file=ignore: input ended with %d line breaks, output with %d" % (had, got)))
        if eof == "add" and had >= 1 and got == 0:      # (force with a minimum of 0 literally asks for none)
            v.append(("file-end-not-as-configured", "nl_end_of_file=%s min=0 lost the final newline" % eof))
    return v


def tab_product(quick):
    ic = ("3", "8") if quick else ("1", "2", "3", "4", "8")
    ts = ("3", "8") if quick else ("1", "2", "3", "4", "8")
    pit = ("-1", "0", "2") if quick else ("-1", "0", "1", "2")
    out = []
    for iwt, c, t, awt, akt, p, ict in itertools.product(("0", "1", "2"), ic, ts, ("false", "true"), ("false", "true"), pit, ("false", "true")):
        if quick and awt != akt and ict == "true":
            continue
        out.append({"indent_with_tabs": iwt, "indent_columns": c, "output_tab_size": t, "align_with_tabs": awt, "align_keep_tabs": akt,
                    "pp_indent_with_tabs": p, "indent_cmt_with_tabs": ict})
    return out


def layouts17(src):
    s = src.decode("latin-1")
    lines = s.split("\n")
    out = c05.layouts(src)
    out.append(("ws-blank-lines", "\n".join(l if l.strip() else " \t " for l in lines).encode("latin-1")))
    out.append(("space-tab-indent", "\n".join(re.sub(r"^( {4})+", lambda m: " \t" * (len(m.group(0)) // 4), l) for l in lines).encode("latin-1")))
    tb = []
    for l in lines:
        if '"' in l or "'" in l or "/*" in l or "//" in l or l.lstrip().startswith("#"):
            tb.append(l)
        else:
            ind = len(l) - len(l.lstrip(" \t"))
            tb.append(l[:ind] + l[ind:].replace(" ", "\t"))
    out.append(("tabs-between-tokens", "\n".join(tb).encode("latin-1")))
    if "\\\n" in s:
        # blanks between the backslash of a continuation and the line end
        out.append(("blank-after-backslash", "\n".join((l + "\t") if l.endswith("\\") else l for l in lines).encode("latin-1")))
        out.append(("space-after-backslash", "\n".join((l + "  ") if l.endswith("\\") else l for l in lines).encode("latin-1")))
    seen, res = set(), []
    for n, t in out:
        if t not in seen:
            seen.add(t); res.append((n, t))
    return res


def job(j):
    name, lang, lay, src, cfgs, mode = j
    res = {"id": "%s/%s" % (name, lay), "runs": 0, "nontrivial": 0, "viol": [], "clean_lines": 0}
    for st in cfgs:
        full = dict(ALIGN_ON) if mode == "tabs" else {}
        full.update(st)
        cfg = configs.text(full)
        r = run.unc(src, cfg, lang); res["runs"] += 1
        if r.timeout or r.rc != 0:
            continue
        if r.out != src:
            res["nontrivial"] += 1
        for clause, detail in judge_text(src, r.out, lang, full):
            key = {"clause": clause, "lang": lang, "mode": mode}
            if clause != "file-end-not-as-configured":
                key.update({"indent_with_tabs": full.get("indent_with_tabs", "1"), "pp_indent_with_tabs": full.get("pp_indent_with_tabs", "-1"),
                            "kind": "directive" if "(directive)" in detail else "code",
                            "first": "comment" if "first=comment" in detail else "code"})
            else:
                key.update({"nl_end_of_file": full.get("nl_end_of_file", "ignore"), "min": full.get("nl_end_of_file_min", "0")})
            res["viol"].append((key, {"input": src, "output": r.out, "config.cfg": cfg, "lang": lang, "detail": detail, "where": res["id"]}))
            break
    return res


def bee_judge(case, r):
    if r.timeout or r.rc != 0:
        return []
    st = dict(case["base_settings"])
    for k, v in case["devs"]:
        st[k] = v
    out = []
    for clause, detail in judge_text(case["src"], r.out, case["lang"], st)[:1]:
        out.append({"clause": clause, "lang": case["lang"], "mode": "singles", "indent_with_tabs": st.get("indent_with_tabs", "1"), "_detail": detail})
    return out


def fam(name):
    return (name.startswith("indent_") or name.startswith("align_") or name.startswith("pp_") or name.startswith("cmt_") or name.startswith("nl_")
            or name in ("code_width", "output_tab_size", "input_tab_size")) and not name.startswith("cmt_insert")


def programs(quick):
    out = []
    for name, lang, src in skel.all_skeletons(tuple(LEXLANG)):
        out.append((name, lang, src))
    from ..universe import langunits
    for lang in LEXLANG:
        for n, s, _m in langunits.units(lang) + langunits.sp_units(lang):
            out.append((n.replace(":", "-"), lang, s))
    for n, s in cgen.decl_units("C"):
        out.append(("decl-" + n, "C", s))
    for n, s in cgen.pp_units():
        out.append(("pp-" + n, "C", s))
    if not quick:
        for n, s in cgen.decl_units("CPP"):
            if n in dict(cgen.DECLS_CPP):
                out.append(("declpp-" + n, "CPP", s))
    funcs = progsets.stmt_funcs(1)
    for pid, src, meta in progsets.pack_funcs(funcs, 40):
        out.append((pid, "C", src))
    if not quick:
        # depth-2 statement packs: formatted under a 24-configuration sub-product only (see check())
        for pid, src, meta in progsets.pack_funcs(progsets.stmt_funcs(2), 40):
            out.append(("d2-" + pid, "C", src))
    return out


def check(ctx):
    quick = ctx.tier == "quick"
    progs = programs(quick)
    tabs = tab_product(quick)
    jobs = []
    for name, lang, src in progs:
        lays = layouts17(src)
        if quick:
            lays = [l for l in lays if l[0] in ("orig", "trailing", "ws-blank-lines", "space-tab-indent", "tabs-between-tokens", "blank-after-backslash", "space-after-backslash")]
            if not name.startswith(("c-", "cpp-", "pp-", "stmts")):
                lays = lays[:2]
        if name.startswith("d2-"):
            sub = tab_product(True)[::9]
            for ln, ls in lays[:1] + [l for l in lays if l[0] == "space-tab-indent"]:
                jobs.append((name, lang, ln, ls, sub, "tabs"))
            continue
        if not quick:
            lays = [l for l in lays if l[0] in ("orig", "trailing", "ws-blank-lines", "space-tab-indent", "tabs-between-tokens", "blank-after-backslash", "space-after-backslash")]
        for ln, ls in lays:
            for i in range(0, len(tabs), 60):
                jobs.append((name, lang, ln, ls, tabs[i:i + 60], "tabs"))
    # end-of-file family
    eofc = [{"nl_end_of_file": a, "nl_end_of_file_min": str(m)} for a in ("ignore", "add", "remove", "force") for m in (0, 1, 2, 3)]
    eofc += [dict(c, nl_max="2") for c in eofc if int(c["nl_end_of_file_min"]) <= 2]
    for name, lang, src in progs:
        if name.startswith("d2-") or (quick and not name.startswith(("c-", "cpp-", "pp-last", "pp-first", "pp-dir", "java", "oc-"))):
            continue
        body = src.rstrip(b"\n")
        for en, tail in (("none", b""), ("one", b"\n"), ("three", b"\n\n\n"), ("ws-after", b"\n  \t"), ("crlf", b"\r\n"), ("blank-ws-lines", b"\n \n\t\n")):
            jobs.append((name, lang, "eof-" + en, body + tail, eofc, "eof"))
        jobs.append((name, lang, "eof-comment-last", body + b"\n/* last */", eofc, "eof"))
        jobs.append((name, lang, "eof-cpp-comment-last", body + b"\n// last", eofc, "eof"))
        jobs.append((name, lang, "eof-pp-last", body + b"\n#define LASTLINE 1", eofc, "eof"))
    groups = []
    dl = ctx.deadline - 20
    for name, lang, src in progs:
        if name.startswith("d2-") or (quick and name not in ("c-basic", "cpp-class", "pp-define-multi", "decl-varblock", "stmts:0", "pp-if-inside")):
            continue
        for bn, base in (("tabs0", {"indent_with_tabs": "0"}), ("tabs1", {"indent_with_tabs": "1"}), ("tabs2", {"indent_with_tabs": "2"}),
                         # code and directives governed differently: an option read for the one must not leak into the other
                         ("tabs0-pp2", {"indent_with_tabs": "0", "pp_indent_with_tabs": "2"}), ("tabs2-pp0", {"indent_with_tabs": "2", "pp_indent_with_tabs": "0"})):
            b = dict(ALIGN_ON); b.update(base)
            lay = dict(layouts17(src)).get("space-tab-indent", src)
            groups.append(bee.Group("C17", name + "/space-tab-indent", lay, lang, bn, b, bee_judge, fam, None, 1, deadline=dl))
    ctx.log("jobs: %d (programs %d, tab configurations %d), single-deviation groups: %d" % (len(jobs), len(progs), len(tabs), len(groups)))
    agg = {"runs": 0, "nontrivial": 0}
    with run.Pool() as pool:
        a = job(jobs[0]); b = job(jobs[0])
        if (a["runs"], len(a["viol"])) != (b["runs"], len(b["viol"])):
            print("HARNESS-NONDETERMINISM"); raise SystemExit(2)
        bagg = bee.drive(ctx, groups, pool)
        for res in pool.imap(job, jobs, chunksize=2, deadline=ctx.deadline):
            agg["runs"] += res["runs"]; agg["nontrivial"] += res["nontrivial"]
            for w, files in res["viol"]:
                ctx.rep.violation(w, files, ["/verif/build/hooks/uncrustify", "-c", "config.cfg", "-l", files["lang"], "-f", "input"])
        if pool.cut:
            ctx.cut = True
    cov = {
        "evaluations": agg["runs"] + bagg["runs"], "distinct_nontrivial": agg["nontrivial"] + bagg["nontrivial"],
        "states": len(jobs) + bagg["groups"], "transitions": agg["runs"] + bagg["runs"], "traces_validated_against_impl": agg["runs"] + bagg["runs"],
        "rule": "%d programs x original layouts x the %d-configuration tab product (alignment on), the end-of-file family (32 + 24 "
                "configurations x 9 input endings), and every single deviation over the layout options read on %d (program, tab base) groups; "
                "non-trivial = output differs from the input" % (len(progs), len(tabs), len(groups)),
        "samples": [{"program": jobs[0][0], "layout": jobs[0][2], "config": jobs[0][4][7]}, {"eof_config": eofc[9], "ending": "three"}],
        "tab_configurations": len(tabs), "single_deviations_pruned_by_read_set": bagg["pruned"], "single_deviation_runs": bagg["runs"],
    }
    cov.update(bee.vacuity(bagg))
    return {"level": LEVEL, "coverage": cov,
            "assumptions": ["independent lexer masks comments and literals", "continuation lines of a directive belong to the directive"]}


def replay(path):
    import json
    w = json.load(open(os.path.join(path, "witness.json")))["witness"]
    print(json.dumps(w, indent=1))
    src = open(os.path.join(path, "input"), "rb").read()
    cfgt = open(os.path.join(path, "config.cfg")).read()
    lang = open(os.path.join(path, "lang")).read()
    r = run.unc(src, cfgt or None, lang)
    v = judge_text(src, r.out, lang, configs.parse_cfg(cfgt)) if r.rc == 0 else []
    print("re-evaluated:", v[:3])
    return 1 if v else 0
