"""C03  Comments and literals survive intact.

Universe: declaration / preprocessor / statement programs x every token boundary ("hole") x a comment alphabet.
To keep the space enumerable a program variant carries the comment at every m-th hole (holes h = j mod m for
j = 0..m-1): every hole receives every comment kind in some variant.  Each inserted comment has a unique text.
Oracle: (1) the C02 token oracle (a comment must not swallow a token, literals are tokens and must be
byte-identical); (2) comments lexed from the output == comments lexed from the input: same number, same order,
same text after the normalisation the property allows (layout of continuation lines only).
"""
import os, re

from .. import bee, configs, oracles, run
from ..lex import cfamily
from ..universe import cgen, progsets
from . import c02

LEVEL = "model_checking"

KINDS = {
    "block": lambda i: "/* c%d */ " % i,
    "glued": lambda i: "/*g%d*/" % i,
    "line": lambda i: "// l%d\n" % i,
    "multi-star": lambda i: "/* m%d\n * two\n * three */\n" % i,
    "multi-plain": lambda i: "/* p%d\n   two\n     three */ " % i,
    "doc": lambda i: "/** d%d */ " % i,
    "doc-trail": lambda i: "///< t%d\n" % i,
    "line-cont": lambda i: "// k%d \\\n   cont\n" % i,
    "line-bs-blank": lambda i: "// k%d C:\\temp\\ \n" % i,
    "tab": lambda i: "/* a\tb%d */ " % i,
    "nonascii": lambda i: "/* \xc3\xa9 \xc3\xbc%d */ " % i,
    "adjacent": lambda i: "/* x%d *//* y%d */ " % (i, i),
    "lookalike": lambda i: "/* INDENT-OFF %d */ " % i,
}
LINE_KINDS = {"line", "doc-trail", "line-cont", "multi-star", "line-bs-blank"}


def holes(src, lang):
    """-> list of (offset, in_directive) for every real token start"""
    lx = cfamily.lex(src, oracles.INDEP_LANGS[lang])
    out = []
    depth = 0
    for t, st in zip(lx.toks, lx.starts):
        if t.kind == "DIR(":
            depth = 1
            continue
        if t.kind == "DIR)":
            depth = 0
            continue
        out.append((st, depth == 1))
    return out


def variants(src, lang, kind, m):
    """-> list of (variant id, hole class, source, number of comments).  Hole classes are kept in separate variants:
    'code' (outside directives), 'directive' (inside a directive line), 'before-hash' (directly before the '#')."""
    hs = holes(src, lang)
    s = src.decode("latin-1")
    classes = {}
    for idx, (off, in_dir) in enumerate(hs):
        if in_dir and s[off:off + 1] == "#" and (idx == 0 or not hs[idx - 1][1] or s[:off].rstrip(" \t").endswith("\n") or off == 0):
            cls = "before-hash"
        elif in_dir:
            cls = "directive"
            # never split '#' from the directive name or a macro name from its '('
            if s[:off].rstrip(" \t").endswith("#") or s[off:off + 1] == "(":
                continue
        else:
            cls = "code"
        if cls != "code" and kind in LINE_KINDS:
            continue
        classes.setdefault(cls, []).append((idx, off))
    res = []
    for cls, lst in sorted(classes.items()):
        for j in range(m):
            parts = []
            last = 0
            n = 0
            for pos, (idx, off) in enumerate(lst):
                if pos % m != j:
                    continue
                parts.append(s[last:off])
                parts.append(KINDS[kind](idx))
                last = off
                n += 1
            parts.append(s[last:])
            if n:
                res.append(("%s%d" % (cls[0], j), cls, "".join(parts).encode("latin-1"), n))
    return res


def norm_comment(text, kind):
    lines = re.split(r"\r\n|\r|\n", text)
    out = [lines[0].rstrip(" \t\\").rstrip()] if kind == "line" else [lines[0].rstrip()]
    for ln in lines[1:]:
        ln = ln.strip(" \t")
        if kind == "line":
            ln = ln.rstrip("\\").rstrip()
            if ln.startswith("//"):
                ln = ln[2:].lstrip()
        out.append(ln)
    return "\n".join(out)


def comment_witness(src, out, lang):
    li = cfamily.lex(src, oracles.INDEP_LANGS[lang])
    lo = cfamily.lex(out, oracles.INDEP_LANGS[lang])
    if not li.ok:
        return None
    a = [(norm_comment(c[1], c[2]), c[2]) for c in li.comments]
    b = [(norm_comment(c[1], c[2]), c[2]) for c in lo.comments]
    if a == b:
        return None
    if len(a) != len(b):
        clause = "comment-lost" if len(b) < len(a) else "comment-duplicated"
    elif sorted(a) == sorted(b):
        clause = "comment-order-changed"
    else:
        clause = "comment-text-changed"
    i = oracles.first_diff(a, b)
    ca = a[i] if i < len(a) else ("", "")
    cb = b[i] if i < len(b) else ("", "")
    return {"clause": clause, "comment_kind_in": ca[1]}, (ca[0], cb[0])


def judge(case, r):
    if r.timeout or r.rc != 0:
        return []
    out = c02.judge(case, r)
    if out:
        for w in out:
            w["comment_kind"] = case["meta"].get("kind", "")
            w["hole_class"] = case["meta"].get("hole_class", "")
        return out
    w = comment_witness(case["src"], r.out, case["lang"])
    if w:
        d = w[0]
        d["comment_kind"] = case["meta"].get("kind", "")
        d["hole_class"] = case["meta"].get("hole_class", "")
        d["lang"] = case["lang"]
        d["_in"] = w[1][0]; d["_out"] = w[1][1]
        return [d]
    return []


def fam_layout(name):
    return (name.startswith(("nl_", "indent_", "align_", "pos_", "sp_", "eat_blanks")) or name in ("code_width",)) \
        and not configs.is_modifying(name)


def fam_nl(name):
    return name.startswith(("nl_", "pos_", "eat_blanks")) and not configs.is_modifying(name)


def fam_indent(name):
    return name.startswith(("indent_", "align_")) and not configs.is_modifying(name)


def base_programs(quick):
    progs = []
    names_c = ("funcs", "varblock", "struct", "enum", "goto", "infinite", "strings", "casts") if quick else None
    for n, src in cgen.decl_units("C"):
        if n == "intspell" or (names_c and n not in names_c):
            continue
        progs.append(("decl:" + n, src, "C"))
    names_cpp = ("class", "ctorinit", "tmpl", "lambda", "trycatch", "rawstr", "convop") if quick else None
    for n, src in cgen.decl_units("CPP"):
        if n in [x for x, _ in cgen.DECLS_C] or n == "intspell" or (names_cpp and n not in names_cpp):
            continue
        progs.append(("decl:" + n, src, "CPP"))
    names_pp = ("define-fn", "define-multi", "if-inside", "includes", "dir-comment") if quick else None
    for n, src in cgen.pp_units():
        if names_pp and n not in names_pp:
            continue
        progs.append(("pp:" + n, src, "C"))
    # statements: do / else / switch shapes (comment directly after 'do', before '{', ...)
    funcs = [f for f in progsets.stmt_funcs(1, styles=("kr",)) if f[1] == "kr"]
    for pr in progsets.pack_funcs(funcs[::4] if quick else funcs, 6):
        progs.append((pr[0], pr[1], "C"))
    # leading-comma initialiser lists / argument lists (the comment then sits between a value and a leading comma)
    progs.append(("lead-comma", b"struct B { int a; int b; int c; B(int x, int y)\n    : a(x)\n    , b(y)\n    , c(0)\n{}\n};\n"
                                b"int arr[] = { 1\n            , 2\n            , 3 };\nint f(int p\n    , int q);\n", "CPP"))
    return progs


def check(ctx):
    quick = ctx.tier == "quick"
    kinds = ["block", "glued", "line", "multi-star", "line-cont", "line-bs-blank", "adjacent", "doc-trail"] if quick else list(KINDS)
    m = 4 if quick else 3
    P = configs.profiles()
    groups = []
    dl = ctx.deadline - 25
    nprog = 0
    ncomments = 0
    for name, src, lang in base_programs(quick):
        for kind in kinds:
            for j, cls, vsrc, n in variants(src, lang, kind, m):
                nprog += 1
                ncomments += n
                pr = ("%s+%s/%s" % (name, kind, j), vsrc, {"ctx": "cmt", "kind": kind, "hole_class": cls})
                fam = fam_nl if quick else fam_layout
                groups.append(bee.Group("C03", pr[0], pr[1], lang, "defaults", {}, judge, fam,
                                        fam_indent if (not quick and kind in ("line", "multi-star") and j == "c0") else None,
                                        2 if (not quick and kind in ("line", "multi-star") and j == "c0") else 1,
                                        hooks=("tokens",), meta=pr[2], deadline=dl))
                for pn in (("ben", "linux", "gnu-indent") if quick else list(P)):
                    if pn in P and pn != "defaults":
                        groups.append(bee.Group("C03", pr[0], pr[1], lang, "ws(" + pn + ")", configs.ws(P[pn]), judge,
                                                None, None, 0, hooks=("tokens",), meta=pr[2], deadline=dl))
    ctx.log("program variants: %d (comments placed: %d), groups: %d" % (nprog, ncomments, len(groups)))
    groups.sort(key=lambda g: -(g.k * 10 + (1 if g.fam1 else 0)))
    samples = []

    def on_result(res):
        if len(samples) < 5 and res["runs"] > 1:
            samples.append({"program": res["prog"], "base": res["base"], "runs": res["runs"], "read_set": res["readset"]})

    with run.Pool() as pool:
        a = bee.run_group(groups[-1]); b = bee.run_group(groups[-1])
        if (a["runs"], a["outcomes"], len(a["violations"])) != (b["runs"], b["outcomes"], len(b["violations"])):
            print("HARNESS-NONDETERMINISM"); raise SystemExit(2)
        agg = bee.drive(ctx, groups, pool, on_result=on_result)
    cov = {
        "evaluations": agg["runs"], "distinct_nontrivial": agg["nontrivial"],
        "states": agg["groups"], "transitions": agg["runs"], "traces_validated_against_impl": agg["runs"],
        "rule": "programs x comment kinds %s x hole classes (comment at every %d-th token boundary, all residues: every hole gets every kind) "
                "x {defaults, whitespace projections of shipped profiles} x every single deviation over the newline%s options the base run "
                "reads; oracle: token stream (C02) + comment list equality modulo continuation-line layout" % (kinds, m, "" if quick else "/indent/align/space"),
        "samples": samples or [{"note": "none"}],
        "program_variants": nprog, "comments_placed": ncomments, "groups": agg["groups"],
        "single_deviations_pruned_by_read_set": agg["pruned"], "refused_runs": agg["refused"], "timeouts": agg["timeouts"],
        "distinct_outcomes": agg["outcomes"], "k_completed": 1 if quick else 2,
    }
    cov.update(bee.vacuity(agg))
    return {"level": LEVEL, "coverage": cov,
            "assumptions": ["independent lexer extracts the comments of input and output",
                            "comments at holes h = j (mod m) are placed together in one variant (neighbouring comments are >= m tokens apart)"]}


def replay(path):
    import json
    w = json.load(open(os.path.join(path, "witness.json")))
    print(json.dumps(w, indent=1))
    lang = open(os.path.join(path, "lang")).read()
    src = open(os.path.join(path, "input"), "rb").read()
    r = run.unc(src, open(os.path.join(path, "config.cfg")).read() or None, lang, hooks=("tokens",))
    v = judge({"src": src, "lang": lang, "meta": {}}, r)
    print("re-evaluated:", v)
    return 1 if v else 0
