"""C01  Formatting preserves program meaning (compile equivalence)."""
import os, re, subprocess

from .. import bee, configs, oracles, registry, run
from ..lex import cfamily
from ..universe import cgen, progsets

LEVEL = "model_checking"

CC = {"C": ["gcc", "-x", "c", "-std=gnu17"], "CPP": ["g++", "-x", "c++", "-std=gnu++20"]}
_asm = {}


def compile_asm(src, lang):
    """-> (asm text without .file/.ident lines, None) or (None, first error line)"""
    k = (hash(src), lang)
    if k in _asm:
        return _asm[k]
    p = subprocess.run(CC[lang] + ["-S", "-O1", "-g0", "-w", "-o", "-", "-"], input=src, stdout=subprocess.PIPE, stderr=subprocess.PIPE)
    if p.returncode != 0:
        err = [l for l in p.stderr.decode("latin-1").splitlines() if "error" in l]
        msg = err[0].split("error:", 1)[-1].strip() if err else "compile failed"
        msg = re.sub(r"[‘'`][A-Za-z_]\w*[’']", "'ID'", msg)
        v = (None, msg)
    else:
        asm = b"\n".join(l for l in p.stdout.split(b"\n") if not l.startswith(b"\t.file") and not l.startswith(b"\t.ident"))
        v = (asm, None)
    if len(_asm) > 400:
        _asm.clear()
    _asm[k] = v
    return v


def all_family(name):
    return True


def mod_family(name):
    return name.startswith("mod_")


def ws_family(name):
    return not configs.is_modifying(name)


def tokens_equal(a, b, lang):
    la = cfamily.lex(a, oracles.INDEP_LANGS[lang]); lb = cfamily.lex(b, oracles.INDEP_LANGS[lang])
    return la.ok and lb.ok and cfamily.norm_tokens(la) == cfamily.norm_tokens(lb)


def verdict(src, out, lang, always_compile=False):
    """-> None (equivalent) or (clause, detail)"""
    if not always_compile and tokens_equal(src, out, lang):
        return None
    a, ea = compile_asm(src, lang)
    if a is None:
        raise RuntimeError("generator bug: input does not compile: %s\n%s" % (ea, src.decode("latin-1")[-400:]))
    b, eb = compile_asm(out, lang)
    if b is None:
        return ("output-does-not-compile", eb)
    if a != b:
        return ("object-code-differs", "")
    return None


def judge(case, r):
    lang = case["lang"]
    if r.timeout:
        return []          # hangs are C06's business; counted as timeouts in the evidence
    if r.rc != 0:
        if any(d[0] == "pp_unbalanced_if_action" for d in case["devs"]) or case["base_settings"].get("pp_unbalanced_if_action") == "2":
            return []      # documented: 2 = treat unbalanced #if bodies as an error
        w = {"clause": "valid-program-refused", "exit": r.rc, "lang": lang, "ctx": case["meta"].get("ctx", "")}
        # why: the diagnostic of a non-quiet rerun, reduced to its kind; and the line width in force when it is a tiny one
        # (the identity of a finding must not depend on which unrelated option was deviated alongside)
        r2 = run.unc(case["src"], case["cfg"] or None, lang, quiet=False)
        msg = r2.err.decode("latin-1", "replace")
        for pat, name in (("does not converge", "line-splitting-does-not-converge"), ("pp level is ZERO", "pp-level-zero-in-check"),
                          ("Unmatched", "unmatched-brace-or-paren"), ("not converge", "does-not-converge")):
            if pat in msg:
                w["cause"] = name
                break
        else:
            w["cause"] = "other"
            w["_stderr"] = msg[-300:]
        st = dict(case["base_settings"]); st.update(dict(case["devs"]))
        cw = st.get("code_width")
        if cw is not None and str(cw).isdigit() and 0 < int(cw) <= 16:
            w["code_width"] = str(cw)
        return [w]
    v = verdict(case["src"], r.out, lang, case["meta"].get("always_compile", False))
    if v is None:
        return []
    w = {"clause": v[0], "detail": v[1], "lang": lang, "ctx": case["meta"].get("ctx", "")}
    funcs = case["meta"].get("funcs")
    if funcs:
        # isolate: which single function of the pack shows the same clause on its own?
        shapes = []
        bodies = dict((m[0], m) for m in funcs)
        srctxt = case["src"].decode("latin-1")
        for name, shape, style in funcs:
            m = re.search(r"void %s\(void\)\n\{\n(.*?)\n\}\n" % name, srctxt, re.S)
            if not m:
                continue
            one = progsets.single_func_program(name, m.group(1))
            r1 = run.unc(one, case["cfg"] or None, lang)
            if r1.rc == 0 and not r1.timeout:
                v1 = verdict(one, r1.out, lang)
                if v1 is not None and v1[0] == v[0]:
                    shapes.append(classify(shape))
        w["_shapes"] = sorted(set(shapes)) if shapes else "pack-only"
    return [w]


def classify(shape):
    """coarse structural class of a statement shape (for known-finding matching)"""
    s = re.sub(r"\b[a-z]\d?\b", "x", shape)
    s = re.sub(r"\bint c\d = [^;]*;", "DECL;", shape)
    s = re.sub(r"\b[abc]\d? = \d;", "E;", s)
    s = re.sub(r"f\(a, b\);", "E;", s)
    s = s.replace("for (a = 0; a < b; a++)", "for (;;)")
    return s


def check(ctx):
    quick = ctx.tier == "quick"
    P = configs.profiles()
    groups = []
    dl = ctx.deadline - 30

    def G(prog, lang, bname, base, fam1=None, fam2=None, k=0, meta=None):
        m = dict(prog[2]); m.update(meta or {})
        groups.append(bee.Group("C01", prog[0], prog[1], lang, bname, base, judge, fam1, fam2, k, meta=m, deadline=dl))

    funcs = progsets.stmt_funcs(1 if quick else 2)
    packs = progsets.pack_funcs(funcs, 10)
    funcs2 = progsets.stmt_funcs(2, styles=("kr",))
    packs2 = progsets.pack_funcs(funcs2, 12)
    # statements x mod_* singles (code-modifying options are where meaning can change)
    for pr in (packs + packs2[::3]) if quick else (packs + packs2):
        G(pr, "C", "defaults", {}, mod_family, None, 1)
    # statements x shipped profiles (unprojected: linux has mod_full_brace_if=remove, ...)
    for pn, p in P.items():
        for pr in (packs2[::6] if quick else packs2[::2]):
            G(pr, "C", pn, p)
    # units x every option singly (the 'every option at every enumerated/boundary value' clause)
    for lang in ("C", "CPP"):
        for pr in progsets.units(lang):
            G(pr, lang, "defaults", {}, all_family, None, 1)
            if not quick:
                for pn, p in P.items():
                    G(pr, lang, pn, p)
    # expression neighbourhoods: whitespace options cannot change tokens (C02) but parens options can
    from . import c02
    eprogs = c02.expr_programs(["stmt", "ret", "cond"] if quick else ["stmt", "init", "arg", "ret", "cond"])
    for pr in eprogs[::2] if quick else eprogs:
        G(pr, "C", "defaults", {}, mod_family, None, 1)
    if not quick:
        for pr in packs2[::4]:
            G(pr, "C", "defaults", {}, mod_family, mod_family, 2)
        for pr in [u for u in progsets.units("C") if u[0] in ("decl:returns", "decl:semis", "decl:longints", "decl:infinite", "decl:boolexpr", "decl:enum", "pp:includes", "pp:if-inside", "pp:define-stmt")]:
            G(pr, "C", "defaults", {}, mod_family, all_family, 2)
        # shortcut audit: compile everything on a slice, the token shortcut must never disagree
        for pr in packs[::5]:
            G(pr, "C", "defaults", {}, ws_family, None, 1, meta={"always_compile": True})
    ctx.log("groups: %d" % len(groups))
    groups.sort(key=lambda g: -(g.k * 10 + (1 if g.fam1 else 0)))
    samples = []

    def on_result(res):
        if len(samples) < 5 and res["runs"] > 1:
            samples.append({"program": res["prog"], "base": res["base"], "runs": res["runs"], "read_set": res["readset"]})

    with run.Pool() as pool:
        a = bee.run_group(groups[-1]); b = bee.run_group(groups[-1])
        if (a["runs"], a["outcomes"], len(a["violations"])) != (b["runs"], b["outcomes"], len(b["violations"])):
            print("HARNESS-NONDETERMINISM"); raise SystemExit(2)
        agg = bee.drive(ctx, groups, pool, on_result=on_result)
    rs = agg["readset_sizes"]
    cov = {
        "evaluations": agg["runs"], "distinct_nontrivial": agg["nontrivial"],
        "states": agg["groups"], "transitions": agg["runs"], "traces_validated_against_impl": agg["runs"],
        "rule": "compilable-by-construction programs (statement shapes of G_stmt packed 10-12 functions per unit, declaration and "
                "preprocessor units in C and C++, expression neighbourhoods) x {defaults, 15 shipped profiles} x every single deviation "
                "of every option the base run reads (mod_* for statement packs, ALL options for the units)%s; oracle: gcc/g++ -S -O1 "
                "assembly of input and output identical (skipped only when the independent lexer sees identical token streams)" % (
                    "" if quick else "; mod x mod and mod x any pairs"),
        "samples": samples or [{"note": "none"}],
        "groups": agg["groups"], "single_deviations_pruned_by_read_set": agg["pruned"],
        "refused_runs": agg["refused"], "timeouts": agg["timeouts"], "distinct_outcomes": agg["outcomes"],
        "read_set_min_max": [min(rs), max(rs)] if rs else [], "k_completed": 1 if quick else 2,
    }
    cov.update(bee.vacuity(agg))
    return {"level": LEVEL, "coverage": cov,
            "assumptions": ["gcc/g++ as semantic oracle; equal pp-token streams imply equal object code (audited in thorough)",
                            "Objective-C and Java are not compiled (no ObjC runtime headers; javac cost): C and C++ only"]}


def replay(path):
    import json
    w = json.load(open(os.path.join(path, "witness.json")))
    print(json.dumps(w, indent=1))
    lang = open(os.path.join(path, "lang")).read()
    src = open(os.path.join(path, "input"), "rb").read()
    r = run.unc(src, open(os.path.join(path, "config.cfg")).read() or None, lang)
    v = verdict(src, r.out, lang) if r.rc == 0 else ("valid-program-refused", r.rc)
    print("re-evaluated:", v)
    return 1 if v else 0
