"""BEE: bounded-exhaustive exploration of Programs x Configs(B, k) on the real binary.

A *group* is one (program, base profile).  A worker handles a whole group:
  k=0  the base run (with the option read-set hook)
  k=1  every non-base value of every option that the base run READ and that the
       property's family predicate admits (options not read give the identical
       execution: pruned, counted separately, never counted as executions)
  k=2  for chosen first deviations, every second deviation over the read set of
       the once-deviated run (family predicate 2), unordered pairs deduplicated
The property-specific `judge(case, r)` returns a list of violation witnesses.
"""
import hashlib, os, time

from . import build, configs, registry, run

_reg = {}


def reg():
    b = build.binary("hooks")
    if b not in _reg:
        _reg[b] = registry.options(b)
    return _reg[b]


class Group:
    """Picklable description of one group job."""

    def __init__(self, pid, prog_id, src, lang, base_name, base, judge, fam1=None, fam2=None, k=1,
                 hooks=(), meta=None, args=(), deadline=None, max_second=None, flavour="hooks", quiet=True, env=None,
                 timeout=10.0, allow_lexer=False):
        self.pid = pid; self.prog_id = prog_id; self.src = src; self.lang = lang
        self.base_name = base_name; self.base = base; self.judge = judge
        self.fam1 = fam1; self.fam2 = fam2; self.k = k; self.hooks = tuple(hooks)
        self.meta = meta or {}; self.args = tuple(args); self.deadline = deadline
        self.max_second = max_second
        self.flavour = flavour; self.quiet = quiet; self.env = env; self.timeout = timeout; self.allow_lexer = allow_lexer


def run_group(g):
    """Worker entry. Returns a summary dict."""
    R = reg()
    res = {"prog": g.prog_id, "base": g.base_name, "runs": 0, "nontrivial": 0, "pruned": 0, "violations": [],
           "refused": 0, "timeouts": 0, "readset": 0, "k_done": 0, "outcomes": {}, "cut": False, "fired": {}, "tried": {}}
    hooks = tuple(set(g.hooks) | {"reads"})

    def one(devs):
        cfg = configs.text(g.base, devs)
        r = run.unc(g.src, cfg or None, g.lang, args=g.args, hooks=hooks, flavour=g.flavour, quiet=g.quiet, env=g.env,
                    timeout=g.timeout)
        res["runs"] += 1
        if r.timeout:
            res["timeouts"] += 1
        elif r.rc != 0:
            res["refused"] += 1
        elif r.out != g.src:
            res["nontrivial"] += 1
        case = {"src": g.src, "lang": g.lang, "base": g.base_name, "base_settings": g.base, "devs": devs,
                "cfg": cfg, "prog": g.prog_id, "meta": g.meta, "flavour": g.flavour, "quiet": g.quiet, "env": g.env,
                "args": g.args}
        for w in g.judge(case, r) or ():
            w = dict(w)
            w.setdefault("devs", ",".join("%s=%s" % d for d in devs))
            w.setdefault("base", g.base_name)
            files = case_files(case, r)
            priv = {k: w.pop(k) for k in list(w) if k.startswith("_")}
            if priv:
                import json as _json
                files["detail.json"] = _json.dumps(priv, indent=1, default=str)
            res["violations"].append((w, files))
        key = "rc=%s" % ("timeout" if r.timeout else r.rc)
        res["outcomes"][key] = res["outcomes"].get(key, 0) + 1
        return r

    r0 = one(())
    reads0 = r0.reads
    res["readset"] = len(reads0) if reads0 is not None else -1
    if g.k >= 1 and g.fam1 is not None:
        s1 = configs.singles(R, g.base, reads0, g.fam1, allow_lexer=g.allow_lexer)
        allfam = configs.singles(R, g.base, None, g.fam1, allow_lexer=g.allow_lexer)
        res["pruned"] += len(allfam) - len(s1)
        done_pairs = set()
        for d1 in s1:
            if g.deadline and time.time() > g.deadline:
                res["cut"] = True
                return res
            r1 = one((d1,))
            # vacuity bookkeeping: did this single deviation change the output of this program at all?
            res["tried"][d1[0]] = res["tried"].get(d1[0], 0) + 1
            if not r1.timeout and r1.rc == 0 and r0.rc == 0 and r1.out != r0.out:
                res["fired"][d1[0]] = res["fired"].get(d1[0], 0) + 1
            if g.k >= 2 and g.fam2 is not None and r1.reads is not None:
                s2 = configs.singles(R, dict(g.base, **{d1[0]: d1[1]}), r1.reads, g.fam2, allow_lexer=g.allow_lexer)
                n2 = 0
                for d2 in s2:
                    if d2[0] == d1[0]:
                        continue
                    key = frozenset((d1, d2))
                    if key in done_pairs:
                        continue
                    done_pairs.add(key)
                    if g.deadline and time.time() > g.deadline:
                        res["cut"] = True
                        return res
                    one((d1, d2))
                    n2 += 1
                    if g.max_second and n2 >= g.max_second:
                        break
        res["k_done"] = g.k
    return res


def case_files(case, r):
    return {"input": case["src"], "config.cfg": case["cfg"], "output": r.out, "stderr": r.err[-2000:],
            "lang": case["lang"], "base": case["base"]}


def drive(ctx, groups, pool, chunksize=1, on_result=None):
    """Runs all groups; feeds violations to ctx.rep; returns aggregate statistics."""
    agg = {"groups": 0, "runs": 0, "nontrivial": 0, "pruned": 0, "refused": 0, "timeouts": 0,
           "outcomes": {}, "readset_sizes": [], "cut_groups": 0, "fired": {}, "tried": {}}
    for res in pool.imap(run_group, groups, chunksize=chunksize, deadline=ctx.deadline):
        agg["groups"] += 1
        for k in ("runs", "nontrivial", "pruned", "refused", "timeouts"):
            agg[k] += res[k]
        for k, v in res["outcomes"].items():
            agg["outcomes"][k] = agg["outcomes"].get(k, 0) + v
        for fk in ("fired", "tried"):
            for k, v in res.get(fk, {}).items():
                agg[fk][k] = agg[fk].get(k, 0) + v
        if res["readset"] >= 0:
            agg["readset_sizes"].append(res["readset"])
        if res["cut"]:
            agg["cut_groups"] += 1
        for w, files in res["violations"]:
            argv = ["/verif/build/hooks/uncrustify", "-c", "config.cfg", "-l", files.get("lang", "C"), "-f", "input"]
            ctx.rep.violation(w, files, argv)
        if on_result:
            on_result(res)
    if pool.cut or agg["cut_groups"]:
        ctx.cut = True
    return agg


def vacuity(agg, prefix=None, family=None):
    """Coverage entries that expose vacuous sweeps: options whose single deviation never changed any output and (given the
    names of a family) options that no program of the universe made uncrustify read at all."""
    tried = {k: v for k, v in agg.get("tried", {}).items() if prefix is None or k.startswith(prefix)}
    fired = {k: v for k, v in agg.get("fired", {}).items() if k in tried}
    out = {"options_swept_singly": len(tried), "options_that_changed_some_output": len(fired),
           "options_swept_but_never_effective": sorted(k for k in tried if not fired.get(k))}
    if family is not None:
        out["family_options_total"] = len(family)
        out["family_options_never_read_by_any_program"] = sorted(n for n in family if n not in agg.get("tried", {}))
    return out


def pack(lines, per):
    for i in range(0, len(lines), per):
        yield i // per, lines[i:i + per]


# ---------------------------------------------------------------------------
# plain cases (k = 0): one execution each

class Case:
    """Picklable single execution: input x language x configuration text x extra argv."""

    def __init__(self, cid, src, lang, cfg, judge, args=(), flavour="hooks", quiet=True, env=None, hooks=(), meta=None,
                 timeout=10.0, assume=None):
        self.cid = cid; self.src = src; self.lang = lang; self.cfg = cfg; self.judge = judge; self.args = tuple(args)
        self.flavour = flavour; self.quiet = quiet; self.env = env; self.hooks = tuple(hooks); self.meta = meta or {}
        self.timeout = timeout; self.assume = assume


def run_case(c):
    r = run.unc(c.src, c.cfg, c.lang, args=c.args, hooks=c.hooks, flavour=c.flavour, quiet=c.quiet, env=c.env,
                timeout=c.timeout, assume=c.assume)
    case = {"src": c.src, "lang": c.lang, "cfg": c.cfg or "", "prog": c.cid, "meta": c.meta, "base": c.meta.get("base", ""),
            "devs": (), "flavour": c.flavour, "quiet": c.quiet, "env": c.env, "args": c.args}
    viol = []
    for w in c.judge(case, r) or ():
        w = dict(w)
        files = case_files(case, r)
        priv = {k: w.pop(k) for k in list(w) if k.startswith("_")}
        if priv:
            import json as _json
            files["detail.json"] = _json.dumps(priv, indent=1, default=str)
        viol.append((w, files))
    key = "rc=%s" % ("timeout" if r.timeout else r.rc)
    return {"id": c.cid, "key": key, "nontrivial": bool(r.rc == 0 and not r.timeout and r.out != c.src),
            "refused": bool(r.rc not in (0, None)), "timeout": r.timeout, "violations": viol, "lang": c.lang}


def drive_cases(ctx, cases, pool, chunksize=16, agg=None, flavour="hooks"):
    agg = agg if agg is not None else {"runs": 0, "nontrivial": 0, "refused": 0, "timeouts": 0, "outcomes": {}}
    for res in pool.imap(run_case, cases, chunksize=chunksize, deadline=ctx.deadline):
        agg["runs"] += 1
        agg["nontrivial"] += res["nontrivial"]
        agg["refused"] += res["refused"]
        agg["timeouts"] += res["timeout"]
        agg["outcomes"][res["key"]] = agg["outcomes"].get(res["key"], 0) + 1
        for w, files in res["violations"]:
            argv = [build.binary(flavour), "-c", "config.cfg", "-l", files.get("lang", "C"), "-f", "input"]
            ctx.rep.violation(w, files, argv)
    if pool.cut:
        ctx.cut = True
    return agg
