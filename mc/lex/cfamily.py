"""Independent translation-phase 1-3 lexer for C, C++ and Objective-C (and, with
lang='JAVA', a close-enough Java lexer; with 'CS', 'D', 'VALA' lexers for C#, D and Vala that know those
languages' literals (verbatim / interpolated / raw strings, wysiwyg / delimited / token strings, nesting
comments) and operators).  Written from the language standards, not from uncrustify.

lex(data: bytes, lang) -> Lexed with
  .toks      list of Tok(kind, text)   kinds: id num str chr hdr punct  + markers DIR( / DIR)
  .comments  list of (index into toks at which the comment occurs, text, kind 'block'|'line', in_directive)
  .ok        False if the text ends inside a comment / literal (unterminated)

Directive structure is part of the token sequence: a '#' that is the first token
of a logical line opens a directive (marker DIR( before it), the directive ends at
the first unspliced newline (marker DIR)).  In `#define NAME(` the '(' directly
attached to the name is given the text '(adj' so that attaching/detaching it shows.
"""
import collections

Tok = collections.namedtuple("Tok", "kind text")


class Lexed:
    __slots__ = ("toks", "comments", "ok", "literal_spans", "comment_spans", "starts")

    def __init__(self):
        self.toks = []
        self.comments = []
        self.ok = True
        self.literal_spans = []      # (start, end) byte offsets of string/char/header literals
        self.comment_spans = []      # (start, end) byte offsets of comments
        self.starts = []             # byte offset at which each element of toks starts (parallel to toks)


P3 = ["<<=", ">>=", "...", "->*", "<=>"]
P2 = ["->", "++", "--", "<<", ">>", "<=", ">=", "==", "!=", "&&", "||", "*=", "/=", "%=", "+=", "-=",
      "&=", "^=", "|=", "##", "::", ".*"]
DIGRAPHS = ["%:%:", "<:", ":>", "<%", "%>", "%:"]
JAVA3 = [">>>=", ">>>", "<<=", ">>=", "...", "->", "::"]

CS_P = ["??=", ">>>=", "<<=", ">>=", ">>>", "...", "??", "?.", "=>", "->", "::", "++", "--", "<<", ">>", "<=", ">=", "==", "!=",
        "&&", "||", "*=", "/=", "%=", "+=", "-=", "&=", "^=", "|=", ".."]
D_P = [">>>=", "^^=", "<<=", ">>=", ">>>", "...", "^^", "~=", "..", "=>", "++", "--", "<<", ">>", "<=", ">=", "==", "!=",
       "&&", "||", "*=", "/=", "%=", "+=", "-=", "&=", "^=", "|="]

STR_PREFIX = {"u8", "u", "U", "L", "R", "u8R", "uR", "UR", "LR"}


def _is_nl(s, i):
    """length of a newline sequence at s[i] (0 if none)"""
    c = s[i:i + 1]
    if c == "\n":
        return 1
    if c == "\r":
        return 2 if s[i + 1:i + 2] == "\n" else 1
    return 0


def _idstart(c):
    return c.isalpha() or c == "_" or c == "$" or ord(c) >= 0x80


def _idchar(c):
    return c.isalnum() or c == "_" or c == "$" or ord(c) >= 0x80


class _TokList(list):
    """list of Tok that also records, for each appended token, the scanner offset of its start"""
    def __init__(self, owner):
        list.__init__(self)
        self.owner = owner
        self.cur = 0

    def append(self, t):
        list.append(self, t)
        self.owner.starts.append(self.cur)


def lex(data, lang="C", digraphs=False):
    s = data.decode("latin-1") if isinstance(data, bytes) else data
    n = len(s)
    cpp = lang in ("CPP", "OC+")
    objc = lang in ("OC", "OC+")
    java = lang == "JAVA"
    cs = lang == "CS"
    dlang = lang == "D"
    vala = lang == "VALA"
    nosplice = java or cs or dlang or vala     # a backslash-newline is not a line splice in these languages
    out = Lexed()
    toks = _TokList(out)
    out.toks = toks
    i = 0
    line_start = True       # no token yet on this logical line
    in_dir = False
    dir_state = None        # None / 'name' (expect directive name) / 'define' / 'defname' / 'include' / 'body'
    prev_end = -1           # byte offset where the previous token ended (for '(adj')

    def splice(i):
        # skip backslash-newline sequences
        while not nosplice and i < n and s[i] == "\\":
            k = _is_nl(s, i + 1) if i + 1 < n else 0
            if not k:
                break
            i += 1 + k
        return i

    while True:
        i = splice(i)
        if i >= n:
            break
        c = s[i]
        k = _is_nl(s, i)
        if k:
            if in_dir:
                toks.append(Tok("DIR)", ""))
                in_dir = False
                dir_state = None
            line_start = True
            i += k
            continue
        if c in " \t\f\v":
            i += 1
            continue
        # comments
        if dlang and s.startswith("/+", i):
            depth, e = 1, i + 2
            while e < n and depth:
                if s.startswith("/+", e):
                    depth += 1; e += 2
                elif s.startswith("+/", e):
                    depth -= 1; e += 2
                else:
                    e += 1
            if depth:
                out.ok = False
            out.comments.append((len(toks), s[i:e], "block", in_dir))
            out.comment_spans.append((i, e))
            i = e
            continue
        if c == "/" and i + 1 < n:
            j = splice(i + 1)
            if j < n and s[j] == "*":
                e = s.find("*/", j + 1)
                if e < 0:
                    out.ok = False
                    out.comments.append((len(toks), s[i:], "block", in_dir))
                    out.comment_spans.append((i, n))
                    i = n
                    break
                out.comments.append((len(toks), s[i:e + 2], "block", in_dir))
                out.comment_spans.append((i, e + 2))
                i = e + 2
                continue
            if j < n and s[j] == "/":
                # line comment: to the first unspliced newline
                e = j + 1
                while e < n:
                    if s[e] == "\\" and e + 1 < n and _is_nl(s, e + 1):
                        e += 1 + _is_nl(s, e + 1)
                        continue
                    if _is_nl(s, e):
                        break
                    e += 1
                out.comments.append((len(toks), s[i:e], "line", in_dir))
                out.comment_spans.append((i, e))
                i = e
                continue
        start = i
        toks.cur = i
        # directive start
        if line_start and not java and (c == "#" or (digraphs and s.startswith("%:", i))):
            in_dir = True
            dir_state = "name"
            toks.append(Tok("DIR(", ""))
            ln = 1 if c == "#" else 2
            toks.append(Tok("punct", "#"))
            i += ln
            line_start = False
            prev_end = i
            continue
        line_start = False
        # header-name
        if in_dir and dir_state == "include" and c in "<\"":
            close = ">" if c == "<" else '"'
            e = i + 1
            while e < n and s[e] != close and not _is_nl(s, e):
                e += 1
            if e < n and s[e] == close:
                toks.append(Tok("hdr", s[i:e + 1]))
                out.literal_spans.append((i, e + 1))
                i = e + 1
                dir_state = "body"
                prev_end = i
                continue
        # C# / Vala / D literals that start with a sigil or a letter
        e2 = None
        if cs and c in "$@":
            e2 = _cs_string(s, i, n)
        elif vala and c == "@" and s[i + 1:i + 2] == '"':
            e2 = _quoted(s, i + 1, n)
        elif vala and s.startswith('"""', i):
            e = s.find('"""', i + 3)
            e2 = (e + 3, True) if e >= 0 else (n, False)
        elif cs and s.startswith('"""', i):
            e2 = _cs_string(s, i, n)
        elif dlang:
            e2 = _d_string(s, i, n)
        if e2 is not None:
            end, good = e2
            if not good:
                out.ok = False
            toks.append(Tok("str", s[i:end]))
            out.literal_spans.append((i, end))
            i = end
            dir_state = "body" if in_dir else None
            prev_end = i
            continue
        if cs and c == "@" and i + 1 < n and _idstart(s[i + 1]) and s[i + 1] != "$":
            e = i + 1
            while e < n and _idchar(s[e]):
                e += 1
            toks.append(Tok("id", s[i:e]))
            i = e
            prev_end = i
            continue
        # identifiers / prefixed literals
        if _idstart(c) or (c == "\\" and s[i + 1:i + 2] in ("u", "U")):
            e = i
            while True:
                e = splice(e)
                if e < n and _idchar(s[e]):
                    e += 1
                elif e + 1 < n and s[e] == "\\" and s[e + 1] in "uU":
                    e += 2
                else:
                    break
            word = s[i:e].replace("\\\n", "").replace("\\\r\n", "").replace("\\\r", "")
            if e < n and s[e] in "\"'" and word in STR_PREFIX and not nosplice and not (s[e] == "'" and "R" in word):
                if s[e] == '"' and word.endswith("R"):
                    # raw string R"delim( ... )delim"
                    p = s.find("(", e + 1)
                    delim = s[e + 1:p] if p >= 0 else None
                    if p < 0 or len(delim) > 16 or any(ch in delim for ch in " ()\\\t\v\f\n\r"):
                        out.ok = False
                        i = n
                        break
                    endm = ")" + delim + '"'
                    q = s.find(endm, p + 1)
                    if q < 0:
                        out.ok = False
                        toks.append(Tok("str", s[i:]))
                        i = n
                        break
                    toks.append(Tok("str", s[i:q + len(endm)]))
                    out.literal_spans.append((i, q + len(endm)))
                    i = q + len(endm)
                    prev_end = i
                    continue
                e2, good = _quoted(s, e, n)
                if not good:
                    out.ok = False
                toks.append(Tok("str" if s[e] == '"' else "chr", s[i:e2]))
                out.literal_spans.append((i, e2))
                i = e2
                prev_end = i
                continue
            toks.append(Tok("id", word))
            i = e
            if in_dir:
                if dir_state == "name":
                    dir_state = {"define": "define", "include": "include", "import": "include",
                                 "include_next": "include"}.get(word, "body")
                elif dir_state == "define":
                    dir_state = "defname"
                    prev_end = i
                    continue
                else:
                    dir_state = "body" if dir_state != "include" else "include"
            prev_end = i
            continue
        # numbers (pp-number)
        if c.isdigit() or (c == "." and s[i + 1:i + 2].isdigit()):
            e = i + 1
            while e < n:
                e = splice(e)
                if e >= n:
                    break
                ch = s[e]
                if ch in "eEpP" and s[e + 1:e + 2] in ("+", "-") and not java:
                    e += 2
                elif ch in "eE" and s[e + 1:e + 2] in ("+", "-") and java:
                    e += 2
                elif ch == "." and (dlang or cs) and (s[e + 1:e + 2] == "." or (s[e + 1:e + 2].isalpha() and not s[e + 1:e + 2] in "eEfFdDmM") or s[e + 1:e + 2] == "_"):
                    break                      # '1..2' is a range, '1.foo' a member access (UFCS / extension method)
                elif ch.isalnum() or ch == "_" or ch == ".":
                    e += 1
                elif ch == "'" and cpp and e + 1 < n and (s[e + 1].isalnum() or s[e + 1] == "_"):
                    e += 2
                else:
                    break
            toks.append(Tok("num", s[i:e].replace("\\\n", "").replace("\\\r\n", "")))
            i = e
            dir_state = "body" if in_dir else None
            prev_end = i
            continue
        # strings / chars
        if c in "\"'" or (objc and c == "@" and s[i + 1:i + 2] == '"'):
            q = i + 1 if c == "@" else i
            if java and s.startswith('"""', q):
                e = s.find('"""', q + 3)
                e2, good = (e + 3, True) if e >= 0 else (n, False)
            else:
                e2, good = _quoted(s, q, n)
            if not good:
                out.ok = False
            if dlang and good and s[q] == '"' and s[e2:e2 + 1] in ("c", "w", "d") and not _idchar(s[e2 + 1:e2 + 2] or " "):
                e2 += 1
            toks.append(Tok("str" if s[q] == '"' else "chr", s[i:e2]))
            out.literal_spans.append((i, e2))
            i = e2
            dir_state = "body" if in_dir else None
            prev_end = i
            continue
        # punctuators (max munch)
        t = None
        if cs or vala or dlang:
            for p in (D_P if dlang else CS_P):
                if s.startswith(p, i):
                    if p == "?." and s[i + 2:i + 3].isdigit():
                        continue
                    t = p
                    break
            if t is None:
                t = c
        if java:
            for p in JAVA3:
                if s.startswith(p, i):
                    t = p
                    break
        if t is None:
            if digraphs:
                for p in DIGRAPHS:
                    if s.startswith(p, i):
                        if p == "<:" and cpp and s.startswith("<::", i) and s[i + 3:i + 4] not in (":", ">"):
                            break
                        t = p
                        break
        if t is None:
            for p in P3:
                if s.startswith(p, i) and (p != "<=>" or cpp) and (p != "->*" or cpp):
                    t = p
                    break
        if t is None:
            for p in P2:
                if s.startswith(p, i) and (p not in ("::", ".*") or cpp or (p == "::" and java)):
                    t = p
                    break
        if t is None:
            t = c
        text = t
        if in_dir and dir_state == "defname" and t == "(" and start == prev_end:
            text = "(adj"
        toks.append(Tok("punct", text))
        i += len(t)
        if in_dir and dir_state in ("defname", "define", "name"):
            dir_state = "body"
        prev_end = i
    if in_dir:
        toks.append(Tok("DIR)", ""))
    return out


def _quoted(s, q, n):
    """s[q] is the opening quote; returns (index after the closing quote, terminated?)"""
    quote = s[q]
    e = q + 1
    while e < n:
        ch = s[e]
        if ch == "\\":
            k = _is_nl(s, e + 1) if e + 1 < n else 0
            e += 1 + (k if k else 1)
            continue
        if ch == quote:
            return e + 1, True
        if _is_nl(s, e):
            return e, False
        e += 1
    return n, False


def _cs_string(s, i, n):
    """C# literal starting at s[i] with any of $ @ in front: verbatim, interpolated, raw.  -> (end, terminated) or None"""
    j, verb, interp = i, False, 0
    while j < n and s[j] in "$@":
        if s[j] == "@":
            verb = True
        else:
            interp += 1
        j += 1
    if j >= n or s[j] != '"' or j - i > 3:
        return None
    if s.startswith('"""', j):
        q = 0
        while j + q < n and s[j + q] == '"':
            q += 1
        e = s.find('"' * q, j + q)
        if e < 0:
            return n, False
        e += q
        while e < n and s[e] == '"':
            e += 1
        return e, True
    e = j + 1
    while e < n:
        ch = s[e]
        if ch == "\\" and not verb:
            e += 2
            continue
        if ch == '"':
            if verb and s[e + 1:e + 2] == '"':
                e += 2
                continue
            return e + 1, True
        if interp and ch == "{":
            if s[e + 1:e + 2] == "{":
                e += 2
                continue
            depth, e = 1, e + 1
            while e < n and depth:
                ch2 = s[e]
                if ch2 in "$@\"":
                    r = _cs_string(s, e, n) if ch2 != '"' else _cs_string(s, e, n)
                    if r is None:
                        e += 1
                    else:
                        e = r[0]
                        if not r[1]:
                            return n, False
                    continue
                if ch2 == "'":
                    e = _quoted(s, e, n)[0]
                    continue
                if ch2 == "{":
                    depth += 1
                elif ch2 == "}":
                    depth -= 1
                e += 1
            continue
        if not verb and _is_nl(s, e):
            return e, False
        e += 1
    return n, False


D_OPEN = {"(": ")", "[": "]", "{": "}", "<": ">"}


def _d_string(s, i, n):
    """D literals r"..", `..`, x"..", q"(..)", q"ID ... ID", q{..}  -> (end, terminated) or None"""
    c = s[i]
    end = None
    if c == "`":
        e = s.find("`", i + 1)
        end = (e + 1, True) if e >= 0 else (n, False)
    elif c in "rx" and s[i + 1:i + 2] == '"':
        e = s.find('"', i + 2)
        end = (e + 1, True) if e >= 0 else (n, False)
    elif c == "q" and s[i + 1:i + 2] == '"':
        d = s[i + 2:i + 3]
        if d in D_OPEN:
            depth, e = 1, i + 3
            while e < n and depth:
                if s[e] == d:
                    depth += 1
                elif s[e] == D_OPEN[d]:
                    depth -= 1
                e += 1
            end = (e + 1, True) if (not depth and s[e:e + 1] == '"') else (n, False)
        elif d and (_idstart(d)):
            e = i + 2
            while e < n and _idchar(s[e]):
                e += 1
            ident = s[i + 2:e]
            k = s.find("\n" + ident + '"', e)
            end = (k + len(ident) + 2, True) if k >= 0 else (n, False)
        elif d:
            e = s.find(d + '"', i + 3)
            end = (e + 2, True) if e >= 0 else (n, False)
    elif c == "q" and s[i + 1:i + 2] == "{":
        depth, e = 1, i + 2
        while e < n and depth:
            ch = s[e]
            if ch in "\"`":
                r = _d_string(s, e, n) if ch == "`" else _quoted(s, e, n)
                e = r[0]
                continue
            if ch == "{":
                depth += 1
            elif ch == "}":
                depth -= 1
            e += 1
        end = (e, True) if not depth else (n, False)
    if end is not None and end[1] and s[end[0]:end[0] + 1] in ("c", "w", "d") and not _idchar(s[end[0] + 1:end[0] + 2] or " "):
        end = (end[0] + 1, True)
    return end


def norm_tokens(lx, split_shift=False):
    """Token sequence for comparison: list of (kind, text)."""
    out = []
    for t in lx.toks:
        if split_shift and t.kind == "punct" and t.text == ">>":
            out.append(("punct", ">"))
            out.append(("punct", ">"))
        elif split_shift and t.kind == "punct" and t.text == ">>>":
            out.extend([("punct", ">")] * 3)
        elif t.kind == "str" and "\r" in t.text:
            # a physical line terminator inside a literal that spans lines (raw string, spliced string) is a newline whatever
            # its spelling: the 'newlines' option rewrites it together with all others
            out.append((t.kind, t.text.replace("\r\n", "\n").replace("\r", "\n")))
        else:
            out.append((t.kind, t.text))
    return out


if __name__ == "__main__":
    import sys
    lx = lex(open(sys.argv[1], "rb").read(), sys.argv[2] if len(sys.argv) > 2 else "C")
    for t in lx.toks:
        print(t.kind, repr(t.text))
    print("comments:", lx.comments)
    print("ok:", lx.ok)
