#!/bin/bash
# Development aid: run every quick tier once in sequence on /repo with the default build root, one summary line per check;
# validates every evidence file against the schema afterwards.
cd "$(dirname "$0")/.."
python3 mc/build.py hooks asan && gcc -O2 -w -o build/sysfi mc/sysfi.c
: > quick-summary.log
for c in ${@:-C01 C02 C03 C04 C05 C06 C07 C08 C09 C10 C11 C12 C13 C14 C15 C16 C17 C18 C19 C20}; do
  find replays -maxdepth 1 -name "$c-*" -exec rm -rf {} + 2>/dev/null
  ./check $c --tier quick > quick-$c.log 2>&1; rc=$?
  echo "$c rc=$rc viol=$(grep -c '^VIOLATION' quick-$c.log) $(grep -v 'KNOWN\|VIOLATION' quick-$c.log | tail -1 | cut -c1-160)" | tee -a quick-summary.log
done
python3-vt - <<'PY'
import json, jsonschema, glob
sch = json.load(open('/root/.vp/EVIDENCE.schema.json'))
for f in sorted(glob.glob('evidence/C*.json')):
    try:
        jsonschema.validate(json.load(open(f)), sch)
    except Exception as e:
        print("INVALID", f, str(e)[:200])
print("evidence validated")
PY
echo ALLDONE | tee -a quick-summary.log
