"""Build /repo's *current working tree* into /verif/build/<flavour>.

flavours:
  hooks : g++ -O2 -DUNCRUSTIFY_VERIF            (every check)
  asan  : clang++ -O1 ASan+UBSan -DUNCRUSTIFY_VERIF (C06, C16)
  off   : g++ -O2, guard OFF                    (baseline_off_cmd)

Incremental (ninja), serialised with flock so that concurrently started checks
do not race on one build tree.  VERIF_REPO overrides the source tree (used to
point the checks at a scratch worktree carrying a seeded change).
"""
import fcntl, os, subprocess, sys, time

VERIF = os.path.dirname(os.path.dirname(os.path.abspath(__file__)))
REPO = os.environ.get("VERIF_REPO", "/repo")
BUILD_ROOT = os.environ.get("VERIF_BUILD", os.path.join(VERIF, "build"))

FLAVOURS = {
    "hooks": dict(cxx="g++", flags="-O2 -DUNCRUSTIFY_VERIF", extra=[]),
    "asan": dict(cxx="clang++",
                 flags="-O1 -g -fno-omit-frame-pointer -fsanitize=address,undefined "
                       "-fno-sanitize-recover=undefined -DUNCRUSTIFY_VERIF", extra=[]),
    "off": dict(cxx="g++", flags="-O2", extra=["-DUNCRUSTIFY_SEPARATE_TESTS=ON"], target="all"),
}


def _tag():
    # separate build trees per source tree so VERIF_REPO runs never pollute /repo's
    if REPO == "/repo":
        return ""
    import hashlib
    return "-" + hashlib.sha1(REPO.encode()).hexdigest()[:8]


def build_dir(flavour):
    return os.path.join(BUILD_ROOT, flavour + _tag())


def binary(flavour="hooks"):
    return os.path.join(build_dir(flavour), "uncrustify")


def build(flavour="hooks", quiet=True):
    f = FLAVOURS[flavour]
    bdir = build_dir(flavour)
    if os.environ.get("VERIF_NOBUILD") and os.path.exists(binary(flavour)):
        return binary(flavour)      # development aid: use the binary as it is (never set by the registered commands)
    os.makedirs(bdir, exist_ok=True)
    lock = open(os.path.join(BUILD_ROOT, ".lock-" + flavour + _tag()), "w")
    fcntl.flock(lock, fcntl.LOCK_EX)
    t0 = time.time()
    try:
        if not os.path.exists(os.path.join(bdir, "build.ninja")):
            cmd = ["cmake", "-S", REPO, "-B", bdir, "-G", "Ninja",
                   "-DCMAKE_BUILD_TYPE=Release", "-DNoGitVersionString=ON",
                   "-DCMAKE_CXX_COMPILER=" + f["cxx"],
                   "-DCMAKE_CXX_FLAGS_RELEASE=" + f["flags"]] + f["extra"]
            r = subprocess.run(cmd, stdout=subprocess.PIPE, stderr=subprocess.STDOUT, text=True)
            if r.returncode != 0:
                sys.stderr.write(r.stdout)
                raise SystemExit("HARNESS-ERROR: cmake configure failed for " + flavour)
        r = subprocess.run(["ninja", "-C", bdir, f.get("target", "uncrustify")],
                           stdout=subprocess.PIPE, stderr=subprocess.STDOUT, text=True)
        if r.returncode != 0:
            sys.stderr.write(r.stdout[-8000:])
            raise SystemExit("HARNESS-ERROR: build failed for " + flavour)
    finally:
        fcntl.flock(lock, fcntl.LOCK_UN)
        lock.close()
    if not quiet:
        print("built %s in %.1fs -> %s" % (flavour, time.time() - t0, binary(flavour)))
    return binary(flavour)


if __name__ == "__main__":
    for fl in (sys.argv[1:] or ["hooks"]):
        build(fl, quiet=False)
