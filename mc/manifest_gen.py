"""Generates /verif/MANIFEST.json from the table below (single source of truth)."""
import json, os, subprocess
VERIF = os.path.dirname(os.path.dirname(os.path.abspath(__file__)))

CHECKS = {}
NOT_APPLICABLE = {}


def chk(pid, category, text, note, technique, design_ref, thorough=True):
    CHECKS[pid] = dict(category=category, text=text, note=note, technique=technique, design_ref=design_ref, thorough=thorough)


chk("C13", "fault_enumeration",
    "Every system call that touches the file's directory in each in-place scenario (5 CLI modes x inputs x pre-existing "
    "backup/temp state) is enumerated as a SIGKILL point (incl. partial writes) and as a fault point (errno menu, short "
    "writes), singly and - quick: for the changing inputs from the clean pre-state, thorough: everywhere - in pairs, by a ptrace injector on the real binary; after every execution the "
    "directory must satisfy the all-or-nothing postcondition.",
    "crash = process death at a syscall boundary; no power-loss model; ptrace + /proc/<pid>/fd attribution of calls to the directory",
    "exhaustive syscall-level crash/fault enumeration (deviation bound 1 everywhere plus 2 on a slice in quick, 2 everywhere in thorough) on the real binary", "3/C13")
chk("C14", "model_checking",
    "Explicit-state BFS over histories {user writes c, --replace with profile A/B, run killed at syscall k} with the real binary as "
    "transition function and a reference model of the backup protocol compared after every transition; quick: depth 6 with kill "
    "points to depth 3; thorough: to closure of the reachable state set with kill points everywhere. Plus a length sweep: for every "
    "file length modulo 64 (the md5 block size; thorough: three blocks) the history user(c); run; run; same-length edit of the last "
    "statement; run; run.",
    "state = bytes of file/backup/md5/temp + model variables; content alphabet closed under both formatters; md5 collision-freeness",
    "explicit-state BFS to closure with reference model, binary as transition function", "3/C14")


chk("C02", "model_checking",
    "Stateless bounded-exhaustive exploration on the real binary: all programs of the generated universes (every expression "
    "neighbourhood of G_expr(2) in statement/argument/#define contexts, preprocessor shapes, declaration units, statements, skeletons of all "
    "nine languages) x base "
    "profiles (defaults, all-remove/force/add spacing, whitespace projection of 15 shipped styles) x every single deviation over "
    "every whitespace option the base run reads (sound read-set pruning); thorough adds sp x sp pairs and the 1321 corpus files. "
    "Oracle: independent C/C++/ObjC/Java/C#/D/Vala lexer with directive structure; uncrustify's own raw tokeniser for Pawn and ECMAScript "
    "(and additionally for the skeletons). Universes include the language units of mc/universe/langunits.py (import/using runs, spacing "
    "constructs of all languages, line comments ending in backslash + blanks).",
    "independent lexer mc/lex/cfamily.py; read-set hook soundness (Option<T>::operator() is the only read path); programs up to the stated grammar size only",
    "bounded-exhaustive program x configuration enumeration (k<=1 quick, k<=2 thorough) with independent re-lexing oracle", "3/C02")


chk("C12", "model_checking",
    "History/batch explorer on the real binary: every single-byte perturbation (insert/delete/replace at every position) of each "
    "formatted program, every pair of edits in the last 12-16 bytes, empty/newline/no-final-newline files, under --check (with and "
    "without -q), all batches of length <= 3 over {PASS, FAIL, empty, unreadable}, all illegal flag combinations, and --if-changed in "
    "five output modes; compared with a plain -f reference run and with before/after directory snapshots (names, sizes, sha1, mtime_ns).",
    "reference = plain -f run of the same binary; 6 (quick) / 18 (thorough) base programs, two configurations",
    "exhaustive perturbation x batch enumeration with reference-run oracle and directory snapshots", "3/C12")


chk("C11", "model_checking",
    "History explorer over file sequences on the real binary: a 42-file alphabet of pokers/sensors for the process-global state "
    "(disabled regions, #pragma asm, CRLF/CR, BOM/UTF-16, ObjC tokens under -l, Qt macros, include sorting, include guards, files ending "
    "inside a construct, one file per language ...); all ordered pairs (quick) and all ordered triples over the 20 most state-heavy "
    "files (thorough) x {-l absent, C, CPP, OC} x delivery {--prefix, -F list, --replace --no-backup, --check} x 2 configurations; "
    "every file of every batch is compared byte for byte with its own single-file invocation.",
    "the alphabet is hand-built per global (a poker without a matching sensor shows nothing); reference = same binary, single file",
    "explicit enumeration of all file histories up to length 2/3 with single-run reference oracle", "3/C11")


chk("C01", "model_checking",
    "Stateless bounded-exhaustive exploration: compilable-by-construction C/C++ programs (all statement shapes of G_stmt to depth 1 "
    "quick / 2 thorough in three renderings, each also followed by a second statement; declaration units incl. every spelling order of "
    "integer specifiers x qualifier position; preprocessor units; expression neighbourhoods) x {defaults, 15 shipped profiles} x every "
    "single deviation of every option the base run reads (sound read-set pruning: this discharges 'every option singly at every "
    "enumerated/boundary value'); thorough adds mod x mod / mod x any pairs. Oracle: uncrustify exits 0 and gcc/g++ -S -O1 assembly of "
    "output == input (compile skipped only when the independent lexer sees identical token streams; audited in thorough).",
    "gcc/g++ as semantic oracle, C and C++ only (ObjC/Java not compiled); programs up to the stated grammar bounds; <=2 simultaneous deviations",
    "bounded-exhaustive program x configuration enumeration with compiler object-code oracle", "3/C01")
chk("C03", "model_checking",
    "Stateless bounded-exhaustive exploration: programs x 7 (quick) / 12 (thorough) comment kinds x every token boundary (separate "
    "variants per hole class: code, inside directive, before '#') x {defaults, whitespace projections of shipped profiles} x every single "
    "deviation over the newline (quick) / newline+indent+align+space (thorough) options the run reads; oracle: comment list of the output "
    "equals that of the input (count, order, text modulo continuation-line layout) plus the C02 token oracle (literals are tokens).",
    "independent lexer; comments at holes h = j (mod m) share a variant; comment/string options at default",
    "bounded-exhaustive comment-placement x configuration enumeration with comment-list and token oracles", "3/C03")


chk("C04", "model_checking",
    "Stateless bounded-exhaustive exploration: statement shapes (depth 1 in four renderings incl. multi-line conditions, depth 2), "
    "return/semicolon/integer-spelling/enum/include/infinite-loop/#if units x every mod_* option at every value, all pairs inside the "
    "brace family (quick) plus paren/int/sort pairs and mod x nl/sp pairs (thorough), and the shipped profiles; oracle: after deleting the "
    "token kinds the ENABLED options are documented to add or remove, the token sequences of input and output are equal (multisets "
    "for sort/move options); brackets stay balanced and are added/removed in pairs; with all mod_ options at default nothing changes. "
    "Language units for Java, C#, D, Vala, Objective-C and Pawn (import/using runs, using() statements, optional semicolons, property "
    "attributes, body-less declarations) and six PRIMED bases in which a primary option is already on, so that the secondary options "
    "(sort keys, weights, grouping, prefer-int-on-left ...) act: 55 of the 57 mod_ options change some output (listed in the evidence).",
    "permitted-token table written from the option descriptions; Pawn judged by uncrustify's own tokeniser; a run that ends in a refusal is not judged here",
    "bounded-exhaustive program x mod-option enumeration (k<=2) with token-diff oracle", "3/C04")
chk("C05", "model_checking",
    "History explorer of length 3 (format, format again, once more) on the real binary for every (program, original layout, "
    "profile): generated statement packs, declaration/preprocessor units in C and C++, skeletons and language units of all nine languages, "
    "expression packs in up to 7 uniform layouts x "
    "{defaults + 15 curated profiles}; thorough adds every C/C++ corpus file <= 40 kB x the same profiles as a fixed universe with "
    "individually listed exceptions. Oracle: pass 2 == pass 1, pass 3 == pass 2 byte for byte and --check passes on pass 1; weak claim "
    "(second pass exits 0) for every single deviation over the read set; tree clause: every ordered pair (and the whole set) of five "
    "state-heavy files formatted by ONE invocation, then re-formatted file by file.",
    "profile set = defaults + /verif/profiles/*.cfg; unstable (file, profile) pairs are recorded one by one in known_findings.txt",
    "exhaustive enumeration of length-3 formatting histories over a finite program x layout x profile universe", "3/C05")


chk("C06", "model_checking",
    "Stateless bounded-exhaustive exploration on the ASan+UBSan build of the real binary: every byte prefix and line suffix of every "
    "language skeleton (9 languages) and of the generated declaration/preprocessor units, every token mutation (delete/duplicate/swap "
    "at every position, every bracket replaced by every other bracket), all byte strings of length <= 2 (quick: over a 44-byte alphabet) "
    "as a file and after a valid line, ~170 unterminated-construct tails, 50 tokens repeated 1030 (thorough: 300 / 1030 / 4100) times (fixed-size "
    "tables, recursion depth), brace-unbalancing mutations of an #if/#elif/#else skeleton x every pp_ option, every line-prefix truncation of the corpus files (quick: files "
    "<= 30 lines) x {defaults, kitchen-sink profiles, comment-insertion profile, curated styles}; plus every single deviation of every option "
    "the run reads (incl. mod_/cmt_/lexer options) on the inputs that end inside a construct. Oracle: exit (no signal), documented "
    "status, no sanitizer report, <= 10 s (confirmed alone with 60 s), nothing on stdout and a diagnostic on stderr when refused.",
    "clang ASan+UBSan as fault oracle; the quick tier runs the widest option sweep on the uninstrumented build and a 1/16 slice under the sanitizers",
    "bounded-exhaustive input x configuration enumeration (k<=1) under sanitizers with termination/diagnostic oracle", "3/C06")
chk("C16", "model_checking",
    "Registry-exhaustive enumeration on the ASan+UBSan build: for every option (857) a valid line followed by one bad line for the same "
    "option from the class alphabet of its type (out of range both sides, overflowing, wrong type, dangling / wrongly typed reference, "
    "misspelt name, name only, empty and empty-quoted value, unterminated quote, 10 000-character value, non-ASCII, NUL), compared with "
    "the configuration without the bad line (--update-config dump and formatted bytes); directive lines with missing/unknown arguments, "
    "'using' and 'include' edge cases incl. include cycles, 'using' components at number classes around 3 digits / int / unsigned / 64 bit, "
    "--set / --tracking arguments of every length around the 256-byte buffer; all byte strings <= 2 and all word sequences <= 3 over a 17-word alphabet as "
    "configuration files; the nl_max rule for every blank-line count option x nl_max 1..3 x {equal, one more} x {file, reversed, --set}.",
    "aliases accepted by the reader (e.g. 'true' for an iarf option, 0/1/2) are valid values, not bad lines; blank-line count options are recognised by their documentation text",
    "exhaustive option x bad-line-class enumeration with differential (line absent) oracle under sanitizers", "3/C16")

chk("C15", "model_checking",
    "Registry-exhaustive round-trip exploration on the real binary: every option (857) x every value of its alphabet (every enumerator, "
    "numeric min/interior/max; 16 special strings with blanks, quotes, backslashes, '#', '=', regex metacharacters for string options), "
    "cfg0 -> --update-config -> cfg1 -> --update-config -> cfg2 (also --update-config-with-doc): cfg1 loads without diagnostic, cfg2 == cfg1, "
    "every saved value is the one requested, formatting under cfg0 and cfg1 is byte-identical; all spellings of a setting (n=v, n v, "
    "n,v, upper case, every alias, quoted, CRLF, --set, references plain/negated/inverted) give the same dump; directives: type, set x every "
    "token name, macro-open/else/close, file_ext x every language, using; every etc/*.cfg and tests/config/**/*.cfg as a fixed universe; "
    "string x directive pairs and neighbouring option pairs (thorough).",
    "the --update-config dump and formatting are the observations of the loaded state; alias table taken from the reader's enum conversion",
    "exhaustive option x value x spelling enumeration with double round-trip and differential formatting oracle", "3/C15")

chk("C09", "model_checking",
    "Stateless exhaustive exploration on the real binary: (i) every Unicode scalar value except NUL/CR/LF (1,112,061; quick: the BMP) inside a "
    "'//' comment, a string literal and an identifier, 512 per file, x {UTF-8, UTF-8+BOM, UTF-16LE+BOM, UTF-16BE+BOM}: output bytes equal "
    "input bytes (failing files are bisected to single scalars); (ii) commutation: language skeletons with and without non-ASCII text x 6 "
    "input encodings (incl. BOM-less UTF-16) x utf8_bom (4) x utf8_byte (2) x utf8_force (2) x profiles against the UTF-8 reference run and a "
    "12-line reference function for output encoding and BOM; (iii) invalid input: all single bytes, all byte pairs (quick: over a 23-byte "
    "boundary alphabet), all triples and (thorough) quadruples over that alphabet inside a comment, inside a string and at the start of "
    "the file, UTF-16 lone/swapped surrogates and odd lengths: reproduced byte-wise or refused, never altered.",
    "Python codecs as reference encoder/decoder; 512 scalars share a file (bisected on failure)",
    "exhaustive enumeration over Unicode scalars x encodings and option product with transcoding-commutation oracle", "3/C09")

chk("C08", "model_checking",
    "Stateless exhaustive exploration on the real binary: 12 small programs (multi-line block comment, backslash-continued macro, '//' and "
    "string continuations, raw string with a line break, *INDENT-OFF* and #pragma asm regions, blank-line runs, last line without "
    "terminator, #if) x ALL 3^L assignments of {LF, CRLF, CR} to their L <= 7 line breaks x profiles, and the language skeletons x uniform / "
    "every 1-deviation (thorough: 2-deviation) assignment; each variant is formatted under newlines = lf, crlf, cr and auto; plus every single "
    "deviation (lexer-altering options included) over the options a program's run reads, on its CRLF (thorough: + CR, + alternating) spelling. Oracle: only the "
    "configured terminator occurs outside literals; output equals the output for the LF-canonical form of the same bytes; the crlf/cr output "
    "is the lf output with terminators replaced; auto uses a most frequent terminator counted outside disabled regions.",
    "raw strings masked as the only literals with line breaks; marker lines of a region may count either way; four individually listed known findings (CR-only and census details)",
    "exhaustive enumeration of terminator assignments (3^L) with differential oracle against the LF-canonical run", "3/C08")

chk("C10", "model_checking",
    "Exhaustive delivery-mode product on the real binary: for every (input, profile) - language skeletons of all nine languages, "
    "declaration and preprocessor units; defaults, a profile with include/import/using sorting and alignment, four shipped styles - all 16 "
    "delivery modes (stdin+--assume, stdin+-l, -f, -f -o, -f X -o X, FILE, --prefix, --suffix, -F list, -F -, --replace, --replace "
    "--no-backup, --no-backup, and as the SECOND file of a -F list / of two positional files / of --no-backup behind a guarded CRLF header) x {-l, language from the extension} x ALL subsets of the observer options {-p, -L A, -s, -q, --dump-steps, "
    "--debug-csv-format} the mode accepts, plus one-at-a-time environment deviations (cwd elsewhere with absolute paths, five LC_ALL "
    "values, HOME and UNCRUSTIFY_CONFIG decoys, TZ, COLUMNS, ASLR off via setarch -R, repeated run). Oracle: formatted bytes identical to "
    "the reference run `-f FILE -l LANG -c CFG -q`; set of files created exactly as the mode documents; input untouched unless in place.",
    "uninitialised reads that do not change the output under ASLR on/off are invisible; quick restricts observer subsets to sizes 0, 1, all for 12 of the 16 modes",
    "exhaustive mode x observer-subset x environment-deviation enumeration with reference-run byte comparison", "3/C10")

chk("C17", "model_checking",
    "Stateless bounded-exhaustive exploration on the real binary: statement packs, declaration/preprocessor units, C/C++/ObjC/Java/C#/D/Vala "
    "skeletons and language units x original layouts (trailing blanks, blank lines holding blanks/tabs, tab-after-space indentation, tabs between tokens, "
    "several indentation widths) x the full product of the tab family indent_with_tabs {0,1,2} x indent_columns {1,2,3,4,8} x output_tab_size "
    "{1,2,3,4,8} x align_with_tabs x align_keep_tabs x pp_indent_with_tabs {-1,0,1,2} x indent_cmt_with_tabs (2400 configurations; quick: a "
    "216-configuration sub-product) with alignment on; the end-of-file family nl_end_of_file x nl_end_of_file_min {0..3} (x nl_max) x nine input "
    "endings; every single deviation over the indent_/align_/pp_/cmt_/nl_ options read, on five tab bases (two with code and directives governed differently). Oracle: comments and literals "
    "masked by the independent lexer; no line ends in a blank; no tab in leading whitespace when the governing option is 0, no space before a "
    "tab when it is 1 or 2 (directive lines and their continuation lines governed by pp_indent_with_tabs); file end as configured.",
    "end-of-file clause demands only what the option text fixes (remove: none, force m>0: exactly m, add m>0: at least m, otherwise a final newline is neither invented nor lost)",
    "bounded-exhaustive layout x tab-option-product enumeration with lexer-masked whitespace oracle", "3/C17")
chk("C18", "model_checking",
    "Stateless bounded-exhaustive exploration on the real binary: every statement shape of G_stmt (depth 1 quick / depth 2 thorough; plus compound "
    "statements - nested switch, braced loops - inside case bodies followed by break) in K&R "
    "and Allman rendering as C, C++ and Java, every statement on its own line, x original indentation: 6 uniform indents, EVERY 1-deviation "
    "(each line x each of 6 indents; thorough: every 2-deviation on small shapes), a comment line with odd indentation before each statement "
    "in turn - 33 000 functions (quick), 30 per file - x indent_columns x indent_with_tabs x output_tab_size (quick {2,3,4,8} x {0,2} x {4,8}; "
    "thorough 1..16 x 0..2 x {2,4,8}). Oracle: with tabs expanded every function equals its canonical rendering with indent_columns columns "
    "per nesting level (closed form incl. case labels, case-brace blocks, unbraced bodies, closing braces); differential clause (all original "
    "layouts give the same output) under nine brace/case/label indent option variants.",
    "closed form written from the option documentation for the default brace style; Java with indent_class=true",
    "bounded-exhaustive program x original-layout x indent-option enumeration with closed-form column oracle", "3/C18")
chk("C19", "model_checking",
    "Stateless bounded-exhaustive exploration on the real binary with the guarded space-decision hook: every expression of G_expr(2) in "
    "statement/argument/#define (thorough: + initialiser/return/condition) context, C and C++ declaration units (templates, lambdas, functor "
    "chains, conversion operators ...), preprocessor units, C/C++/ObjC/Java/C#/D/Vala skeletons, spacing units written for the ~70 sp_ options "
    "no other program makes uncrustify consult, statement packs, in original and wide-gap layout x "
    "{defaults, all sp_ add, all sp_ remove, all sp_ force} x every sp_ option the run reads at each of its four values (exhaustive over "
    "options x values by read-set pruning); thorough adds sp x sp pairs. Oracle per pair decided by space_text() whose logged rule is a "
    "registered iarf option: the value returned is that option's configured value (ADD may be set only where the statement exempts it - decided "
    "by the independent lexer: would the pair lex differently without a blank? - never by uncrustify's own force-space flag), and "
    "the gap in the output obeys it (remove: none, force: exactly one blank, add: at least one, ignore: presence as in the input).",
    "hook reports the last rule string logged before do_space() returned; tokens paired by the independent lexer; cases with changed token streams are left to C02",
    "bounded-exhaustive program x spacing-option enumeration with hook-attributed per-pair oracle", "3/C19")

chk("C20", "model_checking",
    "Stateless bounded-exhaustive exploration on the real binary: 7 programs (functions with variable-definition blocks, structs/typedefs/enums, "
    "switch/case, preprocessor blocks with a continued macro, comments incl. a multi-line one with blank lines inside, C++ namespace/class/try, "
    "nested blocks) x blank-line injection at every line boundary (uniform 0..6; every 1-deviation; thorough: 2-deviations) and 25 file "
    "start/end combinations x the full product nl_max 0..6 x eat_blanks_after_open_brace x eat_blanks_before_close_brace, the 32 "
    "nl_start_of_file/nl_end_of_file x _min settings x nl_max {0,3}, and every blank-line count option (44) at every value <= nl_max in {2,4} "
    "(thorough: pairs). Oracle (comments, literals, continued lines masked): no run of more than nl_max line breaks; start/end of file as "
    "configured; no blank line next to a brace when eat_blanks_* is on.",
    "count options recognised by their documentation text; configurations with a count option above nl_max are outside the proviso (status 78 is skipped)",
    "bounded-exhaustive blank-line-layout x option-product enumeration with lexer-masked run-length oracle", "3/C20")

chk("C07", "model_checking",
    "Stateless bounded-exhaustive exploration on the real binary: 22 programs (skeletons of all nine languages, preprocessor and declaration "
    "units) x a region before EVERY line (and at the end of the file, terminated and unterminated) x 19 region contents (tidy and mis-indented "
    "code, non-code, ')))', lone braces, tabs and trailing blanks, whitespace-only lines, blank-line runs, non-ASCII bytes, unterminated "
    "comment / string, preprocessor lines, marker look-alikes, a foreign end marker, column-1 comments, backslash continuations, long "
    "lines, labels) x 6 marker kinds (block / line default markers, custom, regex, #pragma asm, #asm) x {LF, CRLF} x {defaults, shipped "
    "profiles with their mod_ options, kitchen-sink profiles}; plus every single deviation of every option the run reads (incl. mod_, "
    "blank-line, alignment and lexer-altering options) on a subset of positions. Oracle: fidelity (the region's lines equal the input's, "
    "whitespace-only lines may be emptied) and opacity (output outside the region identical for all contents).",
    "marker lines belong to the formatted part; utf8_* transcoding left to C09; known findings listed by (clause, option family or profile, marker class)",
    "bounded-exhaustive region-position x content x marker x configuration enumeration with fidelity and opacity oracles", "3/C07")


def main():
    commits = subprocess.run(["git", "-C", "/repo", "log", "--format=%h %s"], stdout=subprocess.PIPE, text=True).stdout.splitlines()
    hooks = [c.split()[0] for c in commits if c.split(" ", 1)[1].startswith("verif hook:")]
    m = {
        "version": 1,
        "setup_cmd": "python3 mc/build.py hooks asan && gcc -O2 -w -o build/sysfi mc/sysfi.c",
        "hooks": {
            "guard": "UNCRUSTIFY_VERIF",
            "enable": "cmake -DCMAKE_CXX_FLAGS_RELEASE='-O2 -DUNCRUSTIFY_VERIF' (mc/build.py builds /repo's working tree into /verif/build/hooks and /verif/build/asan); hooks are inert unless UNC_VERIF_{READS,TOKENS,FINAL,SPACE} name a file",
            "baseline_off_cmd": "python3 mc/baseline.py",
            "source_commits": list(reversed(hooks)),
            "add_only": True,
        },
        "engines": [
            {"name": "BEE", "path": "mc/run.py + mc/props/*.py", "kind_free_text": "stateless bounded-exhaustive exploration of programs x configurations on the real binary, one process per case"},
            {"name": "HE", "path": "mc/props/c14.py, c11.py, c12.py", "kind_free_text": "explicit-state BFS over operation histories, real binary as transition function, reference model compared at every step"},
            {"name": "SFE", "path": "mc/sysfi.c + mc/props/c13.py", "kind_free_text": "ptrace syscall fault/crash injector, exhaustive over kill and fault points"},
        ],
        "checks": [],
        "not_applicable": [{"property_id": k, "reason": v} for k, v in sorted(NOT_APPLICABLE.items())],
        "notes": "See DESIGN.md. known_findings.txt lists recorded findings and fixed defects.",
    }
    allp = [json.loads(l)["id"] for l in open(os.path.join(VERIF, "properties.jsonl"))]
    for pid in allp:
        if pid not in CHECKS and pid not in NOT_APPLICABLE:
            m["not_applicable"].append({"property_id": pid, "reason": "not claimed yet: check still under construction (DESIGN.md 7.4 build order); the technique applies"})
    for pid in sorted(CHECKS):
        c = CHECKS[pid]
        e = {
            "property_id": pid,
            "quick_cmd": "./check %s --tier quick" % pid,
            "evidence_file": "evidence/%s.json" % pid,
            "replay_cmd_template": "./check %s --replay {path}" % pid,
            "level_claimed": {"category": c["category"], "text": c["text"], "design_ref": c["design_ref"]},
            "level_note": c["note"],
            "technique": c["technique"],
        }
        if c["thorough"]:
            e["thorough_cmd"] = "./check %s --tier thorough" % pid
        m["checks"].append(e)
    for eng in m["engines"]:
        pass
    with open(os.path.join(VERIF, "MANIFEST.json"), "w") as f:
        json.dump(m, f, indent=1)
        f.write("\n")
    try:
        import jsonschema
        jsonschema.validate(m, json.load(open("/root/.vp/MANIFEST.schema.json")))
        print("MANIFEST.json valid, %d checks" % len(m["checks"]))
    except ImportError:
        print("MANIFEST.json written (jsonschema not available), %d checks" % len(m["checks"]))


if __name__ == "__main__":
    main()
