"""Process-pool runner: one uncrustify process per case, fresh private directory
per worker, pinned environment, deterministic argv.

The pieces used by the property modules:

  unc(input, cfg, lang, ...)   run the binary once (inside a pool worker or not)
  Pool(n).imap(fn, cases)      16-way unordered map with deadline support
  scratch()                    this worker's private scratch directory
"""
import hashlib, itertools, multiprocessing, os, shutil, signal, subprocess, sys, tempfile, time

from . import build

NPROC = int(os.environ.get("VERIF_JOBS", "16"))
SEED = int(os.environ.get("VERIF_SEED", "0") or 0)

BASE_ENV = {
    "PATH": "/usr/bin:/bin",
    "LC_ALL": "C",
    "TZ": "UTC",
    "HOME": "/nonexistent",
}

_state = {"dir": None, "cfgs": {}, "n": 0}


def scratch_root():
    base = "/dev/shm" if os.path.isdir("/dev/shm") and os.access("/dev/shm", os.W_OK) else tempfile.gettempdir()
    return base


def scratch():
    """Private directory of this process (created lazily, removed by Pool.close / atexit)."""
    if _state["dir"] is None or _state.get("pid") != os.getpid():
        d = tempfile.mkdtemp(prefix="verif-%d-" % os.getpid(), dir=os.environ.get("VERIF_SCRATCH") or scratch_root())
        _state.update(dir=d, cfgs={}, n=0, pid=os.getpid())
        import atexit
        atexit.register(shutil.rmtree, d, True)
    return _state["dir"]


def cfg_path(cfg_text):
    """Config text -> path of a file holding it (per-process cache, never shared)."""
    if cfg_text is None:
        return "-"
    d = scratch()
    key = hashlib.sha1(cfg_text.encode("utf-8", "surrogateescape")).hexdigest()[:16]
    p = _state["cfgs"].get(key)
    if p is None:
        if len(_state["cfgs"]) > 4000:
            for q in _state["cfgs"].values():
                try:
                    os.unlink(q)
                except OSError:
                    pass
            _state["cfgs"].clear()
        p = os.path.join(d, "c-%s.cfg" % key)
        with open(p, "wb") as f:
            f.write(cfg_text.encode("utf-8", "surrogateescape"))
        _state["cfgs"][key] = p
    return p


def fresh_dir():
    """A new empty directory inside this worker's scratch (caller removes it)."""
    d = scratch()
    _state["n"] += 1
    p = os.path.join(d, "w%d" % _state["n"])
    os.mkdir(p)
    return p


class R:
    __slots__ = ("rc", "out", "err", "timeout", "reads", "hook", "wall")

    def __init__(self):
        self.rc = None; self.out = b""; self.err = b""; self.timeout = False
        self.reads = None; self.hook = {}; self.wall = 0.0

    def ok(self):
        return self.rc == 0 and not self.timeout


def run_argv(argv, stdin=b"", env=None, cwd=None, timeout=10.0):
    r = R()
    e = dict(BASE_ENV)
    if env:
        e.update(env)
    t0 = time.time()
    try:
        for attempt in range(6):
            try:
                p = subprocess.run(argv, input=stdin, stdout=subprocess.PIPE, stderr=subprocess.PIPE,
                                   env=e, cwd=cwd or scratch(), timeout=timeout)
                break
            except (PermissionError, FileNotFoundError, OSError) as x:
                # the binary is being re-linked by a concurrent build step: wait for it
                if isinstance(x, subprocess.TimeoutExpired) or attempt == 5:
                    raise
                time.sleep(2.0)
        r.rc, r.out, r.err = p.returncode, p.stdout, p.stderr
    except subprocess.TimeoutExpired as x:
        r.timeout = True
        r.rc = None
        r.out = x.stdout or b""
        r.err = x.stderr or b""
    r.wall = time.time() - t0
    return r


def unc(inp, cfg=None, lang="C", args=(), hooks=(), flavour="hooks", timeout=10.0,
        env=None, assume=None, quiet=True):
    """Format `inp` (bytes) given on stdin under config text `cfg` (None = built-in
    defaults, '-c -').  hooks: subset of {'reads','tokens','final','space'}."""
    argv = [build.binary(flavour), "-c", cfg_path(cfg)]
    if assume:
        argv += ["--assume", assume]
    elif lang:
        argv += ["-l", lang]
    if quiet:
        argv.append("-q")
    argv += list(args)
    e = dict(env or {})
    hp = {}
    if hooks:
        d = scratch()
        for h in hooks:
            p = os.path.join(d, "hook-%s" % h)
            try:
                os.unlink(p)
            except OSError:
                pass
            hp[h] = p
            e["UNC_VERIF_" + h.upper()] = p
    r = run_argv(argv, stdin=inp, env=e, timeout=timeout)
    for h, p in hp.items():
        try:
            with open(p, "rb") as f:
                data = f.read()
        except OSError:
            data = None
        if h == "reads":
            r.reads = None if data is None else frozenset(data.decode().split())
        else:
            r.hook[h] = data
    return r


# ---------------------------------------------------------------------------

def _init_worker():
    signal.signal(signal.SIGINT, signal.SIG_IGN)


class Pool:
    def __init__(self, n=None):
        self.n = n or NPROC
        self.root = tempfile.mkdtemp(prefix="verifrun-", dir=scratch_root())
        os.environ["VERIF_SCRATCH"] = self.root
        _state["dir"] = None
        self.cut = False
        self.pool = multiprocessing.get_context("fork").Pool(self.n, initializer=_init_worker)

    def imap(self, fn, cases, chunksize=8, deadline=None):
        """Unordered map. Stops *consuming* at the deadline; returns through
        the generator protocol; .cut tells whether the universe was cut short."""
        for wave in chunks(cases, 4000 * chunksize):
            for x in self.pool.imap_unordered(fn, wave, chunksize):
                yield x
                if deadline is not None and time.time() > deadline:
                    self.cut = True
                    return

    def close(self):
        self.pool.terminate()
        self.pool.join()
        shutil.rmtree(self.root, True)
        os.environ.pop("VERIF_SCRATCH", None)
        _state["dir"] = None

    def __enter__(self):
        return self

    def __exit__(self, *a):
        self.close()


def chunks(seq, n):
    it = iter(seq)
    while True:
        c = list(itertools.islice(it, n))
        if not c:
            return
        yield c
