"""Option registry, asked from the freshly built binary (never parsed from source).

options() -> ordered dict name -> Opt(name, type, default, group, minv, maxv, values)
types: bool iarf tokenpos lineend unsigned signed string
"""
import collections, functools, re, subprocess

Opt = collections.namedtuple("Opt", "name type default group minv maxv desc")

TYPEMAP = [
    ("true/false", "bool"),
    ("ignore/add/remove/force", "iarf"),
    ("lf/crlf/cr/auto", "lineend"),
    ("unsigned number", "unsigned"),
    ("number", "signed"),
    ("string", "string"),
]
TOKENPOS = ["ignore", "break", "force", "lead", "trail", "join",
            "lead_break", "lead_force", "trail_break", "trail_force"]


@functools.lru_cache(maxsize=4)
def options(binary):
    sc = subprocess.run([binary, "--show-config"], stdout=subprocess.PIPE, text=True,
                        errors="replace").stdout
    ui = subprocess.run([binary, "--universalindent"], stdout=subprocess.PIPE, text=True,
                        errors="replace").stdout
    bounds = {}
    for sect in ui.split("\n["):
        m = re.search(r'^CallName="(\w+)="', sect, re.M)
        if not m:
            ch = re.search(r'^Choices="([^"]*)"', sect, re.M)
            if ch:     # multiple-choice numeric option (indent_with_tabs): bounds = smallest / largest choice
                items = [c.split("=") for c in ch.group(1).split("|")]
                if items and all(len(i) == 2 and re.match(r"^-?\d+$", i[1]) for i in items):
                    vals = [int(i[1]) for i in items]
                    bounds[items[0][0]] = (min(vals), max(vals))
            continue
        mn = re.search(r"^MinVal=(-?\d+)", sect, re.M)
        mx = re.search(r"^MaxVal=(-?\d+)", sect, re.M)
        if mn and mx:
            bounds[m.group(1)] = (int(mn.group(1)), int(mx.group(1)))
    opts = collections.OrderedDict()
    group = ""
    desc = []
    lines = sc.splitlines()
    i = 0
    while i < len(lines):
        ln = lines[i]
        if (ln == "#" and i + 3 < len(lines) and lines[i + 2] == "#" and lines[i + 1].startswith("# ")
                and (i == 0 or not lines[i - 1].strip()) and not lines[i + 3].strip()):
            group = lines[i + 1][2:].strip()
            i += 3
            desc = []
            continue
        m = re.match(r"^(\w+)\s+=\s+(.*?)\s+#\s+(.*)$", ln)
        if m and not ln.startswith("#"):
            name, dflt, kind = m.group(1), m.group(2).strip(), m.group(3).strip()
            typ = None
            for k, t in TYPEMAP:
                if kind == k:
                    typ = t
                    break
            if typ is None:
                typ = "tokenpos" if "lead" in kind else "unknown:" + kind
            if typ == "string" and len(dflt) >= 2 and dflt[0] == '"' and dflt[-1] == '"':
                dflt = dflt[1:-1]
            mn, mx = bounds.get(name, (None, None))
            opts[name] = Opt(name, typ, dflt, group, mn, mx, " ".join(desc))
            desc = []
        elif ln.startswith("# "):
            desc.append(ln[2:])
        elif not ln.strip():
            pass
        i += 1
    return opts


def alphabet(o):
    """Value alphabet of one option (strings as they appear in a config file)."""
    if o.type == "bool":
        return ["false", "true"]
    if o.type == "iarf":
        return ["ignore", "add", "remove", "force"]
    if o.type == "tokenpos":
        return list(TOKENPOS)
    if o.type == "lineend":
        return ["lf", "crlf", "cr", "auto"]
    if o.type == "unsigned":
        lo = o.minv if o.minv is not None else 0
        hi = o.maxv if o.maxv is not None else 100
        c = {lo, lo + 1, 2, 3, 4, 8, hi - 1, hi}
        return [str(v) for v in sorted(v for v in c if lo <= v <= hi)]
    if o.type == "signed":
        if o.minv is not None:
            c = {o.minv, -1, 0, 1, 2, 4, o.maxv}
            return [str(v) for v in sorted(v for v in c if o.minv <= v <= o.maxv)]
        return [str(v) for v in (-8, -1, 0, 1, 2, 4, 8, 100)]
    if o.type == "string":
        return ["", "word"]
    return []


# options that redefine the lexer, pull in external files, or are debug aids:
# excluded from every sweep unless a check is explicitly about them.
def lexer_or_external(name):
    return (name.startswith("debug_") or name.startswith("cmt_insert_")
            or name in ("disable_processing_cmt", "enable_processing_cmt",
                        "processing_cmt_as_regex", "pp_ignore_define_body",
                        "string_replace_tab_chars", "string_escape_char",
                        "string_escape_char2", "tok_split_gte", "enable_digraphs",
                        "disable_processing_nl_cont", "input_tab_size",
                        "use_form_feed_no_more_as_whitespace_character"))


if __name__ == "__main__":
    import sys
    o = options(sys.argv[1])
    print(len(o), collections.Counter(x.type for x in o.values()))
    print(collections.Counter(x.group for x in o.values()))
