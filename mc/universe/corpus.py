"""The repository's own tests/input/** as a FIXED finite universe (every file, in the language its
.test entry names; nothing is drawn at random)."""
import glob, os, re

from .. import build

LANGMAP = {"c": "C", "cpp": "CPP", "cs": "CS", "d": "D", "ecma": "ECMA", "java": "JAVA", "oc": "OC",
           "pawn": "PAWN", "vala": "VALA", "sql": "SQL"}


def files(langs=None, max_bytes=None):
    tests = os.path.join(build.REPO, "tests")
    seen = {}
    for tf in sorted(glob.glob(os.path.join(tests, "*.test"))):
        for ln in open(tf, errors="replace"):
            m = re.match(r"^\s*(\d+)([!~]*)\s+(\S+)\s+(\S+)(?:\s+(\S+))?\s*$", ln)
            if not m:
                continue
            inp, lang = m.group(4), m.group(5)
            if lang is None:
                lang = LANGMAP.get(os.path.dirname(inp).split("/")[0], None)
            if lang is None:
                continue
            lang = lang.upper()
            seen.setdefault((inp, lang), None)
    out = []
    for (inp, lang) in sorted(seen):
        if langs and lang not in langs:
            continue
        p = os.path.join(tests, "input", inp)
        if not os.path.isfile(p):
            continue
        data = open(p, "rb").read()
        if max_bytes and len(data) > max_bytes:
            continue
        out.append((inp, lang, data))
    return out


if __name__ == "__main__":
    import collections
    f = files()
    print(len(f), collections.Counter(l for _, l, _ in f))
