"""Self-test of the universes: every generated program compiles, every token list re-lexes to itself."""
import os, subprocess, sys
sys.path.insert(0, os.path.dirname(os.path.dirname(os.path.dirname(os.path.abspath(__file__)))))
from mc import run
from mc.universe import cgen
from mc.lex import cfamily


def comp(job):
    lang, name, src = job
    cmd = ["gcc", "-x", "c", "-std=gnu17"] if lang == "C" else ["g++", "-x", "c++", "-std=gnu++20"]
    r = subprocess.run(cmd + ["-fsyntax-only", "-w", "-"], input=src, stdout=subprocess.PIPE, stderr=subprocess.PIPE)
    return lang, name, src, r.returncode, r.stderr[-400:]


def main():
    jobs = []
    ex = cgen.exprs(2)
    print("exprs:", len(ex))
    bad = 0
    for e in ex:
        lx = cfamily.lex(cgen.join(e).encode(), "C")
        if [t.text for t in lx.toks] != e:
            print("LEX MISMATCH", e, [t.text for t in lx.toks]); bad += 1
        for ctx, (pre, post) in cgen.EXPR_CONTEXTS.items():
            ret = "int" if ctx == "ret" else "void"
            jobs.append(("C", "expr:%s:%s" % (ctx, cgen.join(e)), cgen.program(["    " + cgen.join(pre + e + post)], ret=ret)))
    for d in (1, 2):
        st = cgen.stmts(d, 2)
        print("stmts depth", d, len(st))
    for s in cgen.stmts(2, 2):
        for style in ("kr", "allman", "one", "ml", "ml2"):
            jobs.append(("C", "stmt:%s" % (style,), cgen.program(cgen.render(s, style, 1))))
    for lang in ("C", "CPP"):
        for n, src in cgen.decl_units(lang):
            jobs.append((lang, "decl:" + n, src))
        for n, src in cgen.pp_units():
            jobs.append((lang, "pp:" + n, src))
    print("compile jobs:", len(jobs))
    with run.Pool() as pool:
        for lang, name, src, rc, err in pool.imap(comp, jobs, chunksize=16):
            if rc != 0:
                bad += 1
                if bad < 100000:
                    print("COMPILE FAIL", lang, name, "|", err.decode().strip().splitlines()[-1][:150] if err.strip() else "")
    print("bad:", bad)
    return 1 if bad else 0


if __name__ == "__main__":
    sys.exit(main())
