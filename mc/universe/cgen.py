"""Grammar-based program universes for C / C++ (compilable by construction).

Everything here is an *enumeration*: calling a generator twice gives the same
list; nothing is drawn at random.

  exprs(level)          -> list of token lists (int-valued C expressions)
  stmts(depth, width)   -> list of statement ASTs
  render(ast, style)    -> list of source lines
  program(body_lines)   -> bytes of a complete translation unit
  decl_units(lang)      -> list of (name, source bytes) declaration-level programs
  pp_units()            -> list of (name, source bytes) preprocessor shapes
"""
import itertools

PRELUDE = """#include <stdbool.h>
int a, b, c, *p, v[4];
struct S { int m; } s, *q;
int f(int, int);
int g(void);
"""

# ---------------------------------------------------------------------------
# expressions (token lists).  All are int-valued and compile against PRELUDE.

ATOMS = [["a"], ["1"], ["v", "[", "1", "]"], ["s", ".", "m"], ["q", "->", "m"], ["*", "p"],
         ["f", "(", "a", ",", "b", ")"], ["g", "(", ")"], ["'c'"], ["0x1F"], ["1.5"], [".5"], ["1e3"],
         ["sizeof", "a"], ["sizeof", "(", "int", ")"], ["(", "int", ")", "a"], ["(", "a", ")"],
         ['"s"', "[", "0", "]"]]
LVALUES = [["a"], ["v", "[", "1", "]"], ["s", ".", "m"], ["q", "->", "m"], ["*", "p"]]
UNARY = ["-", "+", "!", "~"]
BINOPS = ["*", "/", "%", "+", "-", "<<", ">>", "<", ">", "<=", ">=", "==", "!=", "&", "^", "|", "&&", "||"]
ASSIGNOPS = ["=", "+=", "-=", "*=", "/=", "%=", "<<=", ">>=", "&=", "^=", "|="]

# operands chosen so that every class of last token (left) and first token (right) occurs
LEFT = [["a"], ["1"], ["b", "++"], ["b", "--"], ["(", "b", ")"], ["v", "[", "1", "]"],
        ["f", "(", "a", ",", "b", ")"], ["'c'"], [".5"], ["1e3"], ["0x1F"], ["1."]]
RIGHT = [["b"], ["1"], ["*", "p"], ["-", "b"], ["+", "b"], ["!", "b"], ["~", "b"], ["++", "b"], ["--", "b"],
         ["(", "b", ")"], ["'c'"], [".5"], ["sizeof", "b"], ["(", "int", ")", "b"], ["&", "v", "[", "1", "]", "!=", "p"]]


def exprs(level=2):
    out = []
    seen = set()

    def add(t):
        k = tuple(t)
        if k not in seen:
            seen.add(k)
            out.append(list(t))

    for a in ATOMS:
        add(a)
    if level >= 1:
        for u in UNARY:
            for a in ATOMS:
                if u == "~" and any("." in x or "e3" in x for x in a):
                    continue
                add([u] + a)
        for l in LVALUES:
            add(["++"] + l); add(["--"] + l); add(l + ["++"]); add(l + ["--"])
            add(["*", "&"] + l)
            for op in ASSIGNOPS:
                add(l + [op, "b"])
    if level >= 2:
        for op in BINOPS:
            for l in LEFT:
                for r in RIGHT:
                    if r[0] == "&" and op not in ("&&", "||"):
                        continue
                    if op in ("%", "<<", ">>", "&", "^", "|", "~") and (any("." in x or "e3" in x for x in l + r)):
                        continue      # integer-only operators: no floating operands
                    if r == ["~", "b"] and False:
                        continue
                    add(l + [op] + r)
        for u1 in UNARY:
            for r in RIGHT:
                if r[0] == "&":
                    continue
                if u1 == "~" and any("." in x for x in r):
                    continue
                add([u1] + r)
        for op in ASSIGNOPS:
            for r in RIGHT:
                if r[0] == "&":
                    continue
                if op in ("%=", "<<=", ">>=", "&=", "^=", "|=") and any("." in x for x in r):
                    continue
                add(["a", op] + r)
        for r in RIGHT:
            if r[0] == "&":
                continue
            add(["a", "?"] + r + [":"] + r)
            add(["a", "?", "b", ":"] + r)
            add(["(", "a", ","] + r + [")"])
            add(["f", "("] + r + [","] + r + [")"])
            add(["v", "["] + r + ["]"]) if not any("." in x for x in r) else None
            add(["sizeof"] + r) if r[0] not in ("(",) else None
    return out


EXPR_CONTEXTS = {
    "stmt": (["a", "="], [";"]),
    "init": (["int", "i", "="], [";"]),
    "arg": (["f", "(", "1", ","], [")", ";"]),
    "ret": (["return"], [";"]),
    "cond": (["if", "("], [")", "b", "=", "1", ";"]),
}


def join(tokens):
    return " ".join(tokens)


# ---------------------------------------------------------------------------
# statements.  AST node = tuple(kind, ...):
#   ('expr', text) ('decl', text) ('empty',) ('ret',) ('break',)
#   ('if', body) ('ifelse', body, body) ('for', body) ('forx', body) ('while', body) ('do', body)
#   ('block', [stmts]) ('switch', [(label, [stmts])...]) ('label', stmt)
# A 'body' is ('braced', [stmts]) or ('bare', stmt).

LEAVES0 = [("expr", "a = 1;"), ("decl", "int c1 = a * b;"), ("empty",), ("expr", "f(a, b);"), ("ret",)]
LEAVES1 = [("expr", "b = 2;"), ("decl", "int c2 = b;"), ("ret",)]
LEAVES2 = [("expr", "b = 4;"), ("decl", "int c3 = a;")]


def stmts(depth, width, top=True):
    """All statements of nesting depth <= depth."""
    cache = {}

    def S(d, leaves):
        key = (d, len(leaves))
        if key in cache:
            return cache[key]
        res = list(leaves)
        if d > 0:
            sub = S(d - 1, LEAVES1)
            bodies = []
            for x in sub:
                if x[0] != "decl":
                    bodies.append(("bare", x))
                bodies.append(("braced", [x]))
            if width >= 2:
                for x in sub[:3]:
                    for y in LEAVES2:
                        bodies.append(("braced", [x, y]))
            bodies.append(("braced", []))
            for b in bodies:
                res.append(("if", b))
                res.append(("while", b))
                res.append(("for", b))
                res.append(("do", b))
            small = bodies if d == 1 else bodies[:8]
            for b1 in small:
                for b2 in small:
                    res.append(("ifelse", b1, b2))
            if d > 1:
                # every body as then-branch (dangling-else shapes: a braced body ending in an else-less if)
                for b1 in bodies[8:]:
                    for b2 in (("bare", ("expr", "b = 5;")), ("braced", [("expr", "b = 6;")])):
                        res.append(("ifelse", b1, b2))
            # if / else-if / else chains ('else if' on one line): every combination of four body kinds in three arms,
            # and two-arm chains without a final else
            cb = [bodies[0], bodies[1]] + [b for b in bodies if b[0] == "braced" and len(b[1]) == 2][:1] + [bodies[-1]]
            for b1 in cb:
                for b2 in cb:
                    res.append(("chain", [b1, b2]))
                    for b3 in cb:
                        res.append(("chain", [b1, b2, b3, "else"]))
            # dangling-else family: a braced then-branch whose single statement ends in an else-less 'if' reached through
            # unbraced bodies; removing the braces re-binds the else
            tails = [("if", ("bare", ("expr", "b = 7;")))]
            tails += [(lp, ("bare", tails[0])) for lp in ("while", "for", "forx")]
            tails += [("ifelse", ("bare", ("expr", "b = 8;")), ("bare", tails[0])), ("if", ("bare", tails[1]))]
            for t in tails:
                for e in (("bare", ("expr", "b = 9;")), ("braced", [("expr", "b = 9;")])):
                    res.append(("ifelse", ("braced", [t]), e))
            for b in bodies[:6]:
                res.append(("forx", b))
            for x in sub[:4]:
                res.append(("block", [x]))
                for y in LEAVES2[:1]:
                    res.append(("block", [x, y]))
            for x in sub[:4]:
                res.append(("switch", [("case 1:", [x, ("break",)]), ("default:", [("expr", "b = 3;")])]))
                res.append(("switch", [("case 1:", [("block", [x, ("break",)])]), ("case 2:", []), ("default:", [("break",)])]))
                res.append(("switch", [("case 1:", [("block", [x]), ("break",)]), ("default:", [("block", [("expr", "b = 3;")]), ("break",)])]))
            # the first statement of a case on the line of its label
            for h in ("if", "while", "for", "forx"):
                res.append(("switchi", [("case 1:", [(h, ("bare", ("expr", "b = 2;"))), ("expr", "b = 4;"), ("break",)]),
                                        ("default:", [("do", ("bare", ("expr", "b = 3;")))])]))
            res.append(("switchi", [("case 1:", [("ifelse", ("bare", ("expr", "b = 2;")), ("bare", ("expr", "b = 4;"))), ("break",)]),
                                    ("default:", [("expr", "b = 3;"), ("break",)])]))
        cache[key] = res
        return res

    return S(depth, LEAVES0)


HEAD = {"if": "if (a)", "while": "while (a)", "for": "for (;;)", "forx": "for (a = 0; a < b; a++)"}
# multi-line conditions: style 'ml' splits the loop heads, style 'ml2' splits the if heads
HEAD_ML = {"ml": {"forx": "for (a = 0;\n        a < b;\n        a++)", "while": "while (a &&\n        b)"},
           "ml2": {"if": "if (a &&\n        b)"}}


def render(node, style="kr", ind=0, unit="    "):
    """-> list of lines.  style: 'kr' (brace at end of line), 'allman', 'one' (single line)."""
    if style == "one":
        return [unit * ind + render_one(node)]
    pad = unit * ind
    k = node[0]
    if style in HEAD_ML and k in HEAD_ML[style]:
        return head_body(HEAD_ML[style][k], node[1], style, ind, unit)
    if k in ("expr", "decl"):
        return [pad + node[1]]
    if k == "empty":
        return [pad + ";"]
    if k == "ret":
        return [pad + "return;"]
    if k == "break":
        return [pad + "break;"]
    if k in HEAD:
        return head_body(HEAD[k], node[1], style, ind, unit)
    if k == "ifelse":
        first = head_body("if (a)", node[1], style, ind, unit)
        second = head_body("else", node[2], style, ind, unit)
        if style in HEAD_ML and "if" in HEAD_ML[style]:
            first = head_body(HEAD_ML[style]["if"], node[1], style, ind, unit)
        if node[1][0] == "braced" and style != "allman":
            first[-1] = first[-1] + " " + second[0].strip()
            return first + second[1:]
        return first + second
    if k == "chain":
        arms = [b for b in node[1] if b != "else"]
        heads = ["if (a)"] + ["else if (b)"] * (len(arms) - 1)
        if node[1][-1] == "else":
            heads[-1] = "else"
        out = []
        for h, b in zip(heads, arms):
            part = head_body(h, b, style, ind, unit)
            if out and style != "allman" and out[-1].strip() == "}":
                out[-1] = out[-1] + " " + part[0].strip()
                out += part[1:]
            else:
                out += part
        return out
    if k == "do":
        lines = head_body("do", node[1], style, ind, unit)
        if node[1][0] == "braced" and style != "allman":
            lines[-1] += " while (a);"
        else:
            lines.append(pad + "while (a);")
        return lines
    if k == "block":
        out = [pad + "{"]
        for x in node[1]:
            out += render(x, style, ind + 1, unit)
        return out + [pad + "}"]
    if k == "switchi":
        out = [pad + "switch (a) {"] if style != "allman" else [pad + "switch (a)", pad + "{"]
        for lab, body in node[1]:
            first = render(body[0], style, ind + 1, unit)
            out.append(pad + lab + " " + first[0].strip())
            out += first[1:]
            for x in body[1:]:
                out += render(x, style, ind + 1, unit)
        return out + [pad + "}"]
    if k == "switch":
        out = [pad + "switch (a) {"] if style != "allman" else [pad + "switch (a)", pad + "{"]
        for lab, body in node[1]:
            out.append(pad + lab)
            for x in body:
                out += render(x, style, ind + 1, unit)
        return out + [pad + "}"]
    raise ValueError(k)


def head_body(head, body, style, ind, unit):
    pad = unit * ind
    if body[0] == "bare":
        return [pad + head] + render(body[1], style, ind + 1, unit)
    if style != "allman":
        out = [pad + head + " {"]
    else:
        out = [pad + head, pad + "{"]
    for x in body[1]:
        out += render(x, style, ind + 1, unit)
    return out + [pad + "}"]


def render_one(node):
    k = node[0]
    if k in ("expr", "decl"):
        return node[1]
    if k == "empty":
        return ";"
    if k == "ret":
        return "return;"
    if k == "break":
        return "break;"

    def body(b):
        if b[0] == "bare":
            return render_one(b[1])
        return "{ " + " ".join(render_one(x) for x in b[1]) + (" }" if b[1] else "}")
    if k in HEAD:
        return HEAD[k] + " " + body(node[1])
    if k == "ifelse":
        return "if (a) " + body(node[1]) + " else " + body(node[2])
    if k == "chain":
        arms = [b for b in node[1] if b != "else"]
        heads = ["if (a)"] + ["else if (b)"] * (len(arms) - 1)
        if node[1][-1] == "else":
            heads[-1] = "else"
        return " ".join(h + " " + body(b) for h, b in zip(heads, arms))
    if k == "do":
        return "do " + body(node[1]) + " while (a);"
    if k == "block":
        return "{ " + " ".join(render_one(x) for x in node[1]) + " }"
    if k == "switchi":
        return "switch (a) { " + " ".join(lab + " " + " ".join(render_one(x) for x in b) for lab, b in node[1]) + " }"
    if k == "switch":
        return "switch (a) { " + " ".join(lab + " " + " ".join(render_one(x) for x in b) for lab, b in node[1]) + " }"
    raise ValueError(k)


def has_ret(node):
    if node[0] == "ret":
        return True
    for x in node[1:]:
        if isinstance(x, tuple) and x and isinstance(x[0], str) and x[0] in ("bare",):
            if has_ret(x[1]):
                return True
        elif isinstance(x, tuple) and x and x[0] == "braced":
            if any(has_ret(y) for y in x[1]):
                return True
        elif isinstance(x, list):
            for y in x:
                if isinstance(y, tuple) and len(y) == 2 and isinstance(y[1], list):
                    if any(has_ret(z) for z in y[1]):
                        return True
                elif isinstance(y, tuple) and has_ret(y):
                    return True
    return False


def program(body_lines, prelude=PRELUDE, fname="t", ret="void"):
    src = prelude + "%s %s(void)\n{\n" % (ret, fname) + "\n".join(body_lines) + "\n}\n"
    return src.encode()


# ---------------------------------------------------------------------------
# declaration-level units (each a complete compilable translation unit)

DECLS_C = [
    ("scalars", "int x = 1;\nunsigned int u;\nlong int li;\nshort sh;\nunsigned long ul = 1UL;\nstatic const char cc = 'c';\nextern double d;\n"),
    ("pointers", "int *px;\nchar **argvv;\nconst char *const cpc = 0;\nvoid *vp;\nint (*fp)(int, char *);\nint *(*fpp[3])(void);\n"),
    ("arrays", "int arr[3] = { 1, 2, 3 };\nint mat[2][2] = { { 1, 2 }, { 3, 4 } };\nchar str[] = \"text\";\nint des[4] = { [0] = 1, [3] = 2 };\n"),
    ("struct", "struct P {\n    int x;\n    int y;\n    unsigned f1 : 3;\n    unsigned f2 : 5;\n};\nstruct P pt = { .x = 1, .y = 2 };\nunion U { int i; float f; } un;\n"),
    ("enum", "enum E { E1, E2 = 5, E3 };\nenum F { F1, F2, };\nenum E ev = E1;\n"),
    ("typedef", "typedef int myint;\ntypedef struct Node { struct Node *next; int val; } Node;\ntypedef int (*cb_t)(void *, int);\nmyint mi;\nNode *head;\ncb_t cb;\n"),
    ("protos", "int f1(void);\nstatic int f2(int a, int b);\nextern void f3(const char *fmt, ...);\nint f4(int (*cb)(int), int n);\n"
               "static int f2(int a, int b)\n{\n    return a + b;\n}\n"),
    ("funcs", "int add(int a, int b)\n{\n    return a + b;\n}\n\nstatic void nop(void)\n{\n}\n\nint twice(int x) { return add(x, x); }\n"),
    ("varblock", "int fn(int n)\n{\n    int i;\n    int total = 0;\n    unsigned long k = 1;\n\n    for (i = 0; i < n; i++)\n    {\n        total += i;\n    }\n    return total + (int)k;\n}\n"),
    ("longints", "unsigned long long int ull;\nlong long ll;\nsigned char sc;\nunsigned short int usi;\nlong unsigned int lui;\nshort int si;\n"),
    ("casts", "int cf(double dd, void *pp)\n{\n    int r = (int)dd;\n    char *cp = (char *)pp;\n    r += (int)sizeof(int) + (int)sizeof r;\n    return r + *(int *)pp + cp[0];\n}\n"),
    ("goto", "int gf(int n)\n{\n    if (n)\n        goto out;\n    n++;\nout:\n    return n;\n}\n"),
    ("infinite", "#include <stdbool.h>\nvoid lf(void)\n{\n    for (;;)\n    {\n        break;\n    }\n    while (1)\n    {\n        break;\n    }\n    do\n    {\n        break;\n    } while (1);\n}\n"),
    ("returns", "int r1(int x)\n{\n    return (x);\n}\nint r2(int x)\n{\n    return (x) + 1;\n}\nvoid r3(void)\n{\n    return;\n}\nint r4(int x)\n{\n    return x ? 1 : 2;\n}\n"),
    ("semis", "#include <stdbool.h>\nstruct Q { int z; };;\nint sf(void)\n{\n    int k = 0;;\n    for (;;) { break; };\n    return k;\n};\n"),
    ("boolexpr", "int bf(int x, int y, int z)\n{\n    if (x == 1 && y != 2 || z)\n        return 1;\n    return x < y == z > x;\n}\n"),
    ("ternary", "int tf(int x, int y)\n{\n    return x ? y : x ? 1 : 2;\n}\n"),
    ("cmtblock", "int cb(int x)\n{\n    /*****\n     * banner\n     *****/\n    x++;\n    /* single */\n    if (x) {\n        /**\n         * doc\n         */\n        x--;\n"
                 "        /*-----\n          plain body\n        -----*/\n        x += 2;\n    }\n    return x; /* trailing */\n}\n"),
    ("strings", "const char *s1 = \"a\" \"b\";\nconst char *s2 = \"tab\\there\";\nconst char s3[] = \"quote\\\"q\";\nint ch = '\\'';\nconst char *s4 = \"trailing   \";\n"),
]

DECLS_CPP = [
    ("class", "class A {\npublic:\n    A() : x_(0), y_(1) {}\n    explicit A(int x);\n    virtual ~A();\n    int get() const { return x_; }\nprotected:\n    int x_;\nprivate:\n    int y_;\n};\nA::A(int x) : x_(x), y_(0)\n{\n}\nA::~A() {}\n"),
    ("ns", "namespace n1 {\nnamespace n2 {\nint v;\n}\n}\nusing namespace n1;\nnamespace n3 = n1::n2;\nint w = n1::n2::v;\n"),
    ("tmpl", "template<typename T> T tmax(T a, T b) { return a > b ? a : b; }\ntemplate<class T, int N> struct Arr { T d[N]; };\nArr<int, 3> ai;\nint m = tmax<int>(1, 2);\nArr<Arr<int, 2>, 2> aa;\n"),
    ("refs", "int gi;\nint &ri = gi;\nconst int &cri = gi;\nvoid rf(int &a, const int &b, int &&c);\n"),
    ("oper", "struct V { int x; V operator+(const V &o) const { V r; r.x = x + o.x; return r; } bool operator==(const V &o) const { return x == o.x; } V &operator++() { ++x; return *this; } int operator()(int a) const { return a + x; } };\n"),
    ("enumclass", "enum class Col : unsigned char { Red, Green = 2, Blue };\nCol cc = Col::Red;\n"),
    ("using", "using myint = int;\ntemplate<typename T> using Ptr = T *;\nPtr<myint> pm;\n"),
    ("lambda", "int lf(int x)\n{\n    auto l1 = [](int a) { return a + 1; };\n    auto l2 = [&x](int a) -> int { return a + x; };\n    return l1(x) + l2(1);\n}\n"),
    ("newdel", "struct N { int v; };\nint nd()\n{\n    N *n = new N();\n    int *ar = new int[3];\n    int r = n->v;\n    delete n;\n    delete[] ar;\n    return r;\n}\n"),
    ("cast", "int cst(double d, const int *p)\n{\n    int a = static_cast<int>(d);\n    int *q = const_cast<int *>(p);\n    return a + *q + int(d);\n}\n"),
    ("trycatch", "int tc(int x)\n{\n    try\n    {\n        if (x) throw x;\n    }\n    catch (int e)\n    {\n        return e;\n    }\n    catch (...)\n    {\n        return -1;\n    }\n    return 0;\n}\n"),
    ("rangefor", "int rfor()\n{\n    int arr[3] = { 1, 2, 3 };\n    int t = 0;\n    for (int v : arr)\n    {\n        t += v;\n    }\n    for (auto &v : arr) t += v;\n    return t;\n}\n"),
    ("shift", "template<typename T> struct W { T v; };\nW<W<int> > w1;\nW<W<int>> w2;\nint sh = 8 >> 1;\nbool cmp = 1 < 2;\nint ptrm(struct Z *z, int Z::*pm);\n"),
    ("ptrmem", "struct Z { int f; int g() { return f; } };\nint pm(Z *z, Z &r)\n{\n    int Z::*p = &Z::f;\n    int (Z::*q)() = &Z::g;\n    return z->*p + r.*p + (z->*q)() + (r.*q)();\n}\n"),
    ("ctorinit", "struct B { int a; int b; B(int x, int y) : a(x), b(y) {} B() : B(0, 0) {} };\nB b1(1, 2);\nB b2{ 1, 2 };\nB b3 = B(3, 4);\n"),
    ("noexcept", "struct M { M() noexcept = default; M(const M &) = delete; void f() const noexcept override; virtual void g() = 0; };\n".replace(" override", "")),
    ("globalscope", "namespace N { struct T { int v; }; template<typename X> struct W { X x; }; int gf(int); }\nint gs(void *p)\n{\n    ::N::T *t = static_cast<::N::T *>(p);\n"
                    "    N::W<::N::T> w;\n    N::W<   ::N::T> w2;\n    return ::N::gf(t->v) + (int)sizeof(w) + (int)sizeof(w2) + ::N::gf( ::N::gf(1));\n}\n"),
    ("functor", "struct D { D &operator()(const char *s, int v) { return *this; } D &operator()() { return *this; } D &add() { return *this; } };\n"
                "void fc(D *desc)\n{\n    desc->add()(\"a\", 1)(\"b\", 2)();\n    desc->add() (\"c\", 3) ();\n}\n"),
    ("convop", "struct CV { int x; operator bool() const { return x != 0; } operator const char *() const { return 0; } explicit operator int() const { return x; } };\n"),
    ("rawstr-ml", "const char *m1 = R\"(a \tb\nc \t d)\";\nconst char *m2 = R\"ab(x )ac\" y)ab\";\nconst char *m3 = R\"(\n\tline\n    )\";\nint after_raw = 1;\n"),
    ("rawstr", "const char *rs = R\"(raw \"text\" \\n)\";\nconst char *rs2 = R\"xy(a)b)xy\";\nconst wchar_t *ws = L\"wide\";\nconst auto *u8s = u8\"utf\";\n"),
]


def intspell_unit():
    """every valid spelling order of integer-type specifiers with a qualifier/storage keyword at every position"""
    combos = []
    for sign in ("", "unsigned", "signed"):
        for size in ("", "short", "long", "long long"):
            for base in ("", "int", "char"):
                if base == "char" and size:
                    continue
                if not (sign or size or base):
                    continue
                combos.append([x for x in (sign, size, base) if x])
    combos.append(["long", "double"])
    combos.append(["double"])
    lines = []
    n = 0
    import itertools
    for c in combos:
        perms = set(itertools.permutations(c)) if len(c) <= 2 else {tuple(c), (c[1], c[0]) + tuple(c[2:]), (c[0], c[2], c[1]) if len(c) > 2 else tuple(c)}
        for pm in sorted(perms):
            if "long long" in pm and False:
                continue
            for q in ("", "const", "volatile", "static"):
                slots = range(len(pm) + 1) if q else [0]
                for pos in slots:
                    if q == "static" and pos != 0:
                        continue
                    words = list(pm)
                    if q:
                        words.insert(pos, q)
                    init = " = 1" if q == "const" else ""
                    lines.append("%s w%d%s;" % (" ".join(words), n, init))
                    n += 1
    return ("intspell", ("\n".join(lines) + "\n").encode())


def decl_units(lang="C"):
    out = [(n, s.encode()) for n, s in DECLS_C] + [intspell_unit()]
    if lang == "CPP":
        out = [(n, s.encode()) for n, s in DECLS_C if n not in ("arrays", "struct")] + [(n, s.encode()) for n, s in DECLS_CPP]
    return out


# ---------------------------------------------------------------------------
# preprocessor shapes

PP = [
    ("define-obj", "#define A 1\n#define B (A + 2)\n#define EMPTY\nint x = B;\n"),
    ("define-fn", "#define MAX(a, b) ((a) > (b) ? (a) : (b))\n#define NOARG() 0\n#define OBJ (1)\nint x = MAX(1, 2) + NOARG() + OBJ;\n"),
    ("define-multi", "#define SWAP(a, b) do { \\\n        int t = a; \\\n        a = b; \\\n        b = t; \\\n} while (0)\nvoid f(void)\n{\n    int x = 1, y = 2;\n    SWAP(x, y);\n}\n"),
    ("define-hash", "#define STR(x) #x\n#define CAT(a, b) a ## b\n#define CAT2(a, b) a##b\nconst char *s = STR(hello);\nint CAT(va, r) = 1;\nint CAT2(vb, r) = 2;\n"),
    ("if-around", "#define X 1\n#if X\nint a1;\n#elif defined(Y)\nint a2;\n#else\nint a3;\n#endif\n#ifdef X\nint b1;\n#endif\n#ifndef X\nint b2;\n#endif\n"),
    ("if-inside", "#define X 1\nint f(int a)\n{\n#if X\n    a++;\n#else\n    a--;\n#endif\n    if (a)\n#ifdef X\n        a = 1;\n#else\n        a = 2;\n#endif\n    return a;\n}\n"),
    ("if-brace", "#define X 1\nint f(int a)\n{\n#if X\n    if (a) {\n#else\n    if (!a) {\n#endif\n        a = 3;\n    }\n    return a;\n}\n"),
    ("includes", "#include <stdio.h>\n#include <stdlib.h>\n#include \"stddef.h\"\n#include <stdio.h>\n#include <string.h>\n#include <ctype.h>\nint z;\n"),
    ("pragma", "#pragma once\n#pragma GCC diagnostic push\n#pragma GCC diagnostic ignored \"-Wunused\"\nint y;\n#pragma GCC diagnostic pop\n"),
    ("undef-line", "#define T 1\n#undef T\n#line 100 \"foo.c\"\nint w;\n"),
    ("last-nonl", "int q;\n#define LAST 1"),
    ("first-dir", "#ifndef G_H\n#define G_H\nint q;\n#endif /* G_H */\n"),
    ("nested-if", "#define A 1\n#define B 0\n#if A\n# if B\nint n1;\n# else\nint n2;\n# endif\n#endif\n"),
    ("define-expr-ops", "#define NEG(x) (-(x))\n#define DEREF(p) (*(p))\n#define DIV(a, p) ((a) / *(p))\n#define INC(x) ((x)++ + ++(x))\nint xx;\n"),
    ("define-stmt", "#define CHECK(c) if (!(c)) return -1\n#define LOOP for (;;)\nint f(int a)\n{\n    CHECK(a);\n    LOOP { break; }\n    return 0;\n}\n"),
    ("define-in-case", "int g(void);\nint dc(int a)\n{\n    switch (a) {\n    case 1: {\n#define INNER(x) do { if (x) { g(); } } while (0)\n        INNER(a);\n        break;\n    }\n"
                       "    default:\n        break;\n    }\n    return a;\n}\n"),
    ("define-braces", "int g(void);\n#define CHK(a) if (a) { g(); } else { g(); } g()\n#define BLK(a) { g(); } g()\n#define FN(n) int n(void) { return 1; } int n##_v\nFN(zz);\n"
                      "int db(int a)\n{\n    CHK(a);\n    BLK(a);\n    return zz_v;\n}\n"),
    ("dir-comment", "#define V 1 /* value */\n#define W 2 // other\n#if V /* c */\nint k;\n#endif // V\n"),
    ("error-warning", "#define OK 1\n#if !OK\n#error \"not ok: a  b\"\n#endif\nint e;\n"),
    ("define-cont-cmt", "#define M(a) \\\n    /* first */ \\\n    ((a) + 1)\nint u = M(1);\n"),
]


def pp_units():
    return [(n, s.encode()) for n, s in PP]
