"""Per-language seed skeletons: tiny hand-written programs that between them use each distinctive token
of the language once.  They are inputs to the systematic operators (prefixes, token mutations, holes,
regions, encodings), not samples of anything."""

SKEL = {
    "C": [
        ("c-basic", "#include <stdio.h>\n#define MAX(a, b) ((a) > (b) ? (a) : (b))\nstruct pt { int x; int y; };\n"
                    "static int add(int a, int b)\n{\n    int r = a + b; /* sum */\n    if (r > 3 && a != b) {\n        r = MAX(r, 2);\n    } else\n        r--;\n"
                    "    for (int i = 0; i < r; i++)\n        printf(\"%d\\n\", i); // out\n    return r;\n}\n"),
        ("c-switch", "enum e { A, B = 2 };\nint sw(int v)\n{\n    switch (v) {\n    case A:\n        v++;\n        break;\n    case B: {\n        v = 'c';\n        break;\n    }\n    default:\n        goto out;\n    }\n"
                     "    do { v--; } while (v > 0);\nout:\n    return v ? 1 : 0;\n}\n"),
        ("c-decl", "typedef unsigned long ul_t;\nextern const char *names[];\nint (*cb)(void *, int);\nint arr[2][3] = { { 1, 2, 3 }, { 4, 5, 6 } };\n"
                   "struct s { unsigned a : 3; struct s *next; } s0 = { .a = 1 };\nvoid proto(int, ...);\n"),
        ("c-pp-braces", "int fpb(int a)\n{\n#if A\n    if (a) {\n        a = 1;\n    }\n#elif B\n    if (!a) {\n        a = 2;\n    }\n#else\n    {\n        a = 3;\n    }\n#endif\n    return a;\n}\n"),
        ("c-pp", "#ifndef H\n#define H\n#if defined(X) && X > 1\nint x1;\n#elif 0\nint x2;\n#else\nint x3;\n#endif\n"
                 "#define M(a) do { \\\n        a++; \\\n} while (0)\n#pragma once\n#endif /* H */\n"),
    ],
    "CPP": [
        ("cpp-class", "#include <vector>\nnamespace ns {\ntemplate<typename T>\nclass Box : public Base<T> {\npublic:\n    Box() : v_(0) {}\n    explicit Box(T v);\n    virtual ~Box();\n"
                      "    T get() const { return v_; }\n    Box &operator+=(const Box &o) { v_ += o.v_; return *this; }\nprivate:\n    T v_;\n};\n} // namespace ns\n"),
        ("cpp-func", "int f(std::vector<int> &v, int *p)\n{\n    auto l = [&](int a) -> int { return a + v.size(); };\n    for (auto &x : v) x += l(1);\n"
                     "    try {\n        if (!p) throw 1;\n    } catch (const std::exception &e) {\n        return -1;\n    } catch (...) {\n    }\n"
                     "    int *q = new int[3];\n    delete[] q;\n    return static_cast<int>(v.size()) >> 1;\n}\n"),
        ("cpp-misc", "enum class Col : char { R, G };\nusing Ptr = int *;\ntemplate<class T, int N> struct Arr { T d[N]; };\nArr<Arr<int, 2>, 2> aa;\n"
                     "const char *rs = R\"x(raw \" text)x\";\nint Z::*pm = &Z::f;\nconstexpr int sq(int x) noexcept { return x * x; }\nextern \"C\" { void cfn(void); }\n"),
    ],
    "OC": [
        ("oc-iface", "#import <Foundation/Foundation.h>\n@interface Foo : NSObject <Bar> {\n    int _x;\n}\n@property (nonatomic, copy) NSString *name;\n"
                     "- (void)doIt:(int)a with:(id)b;\n+ (instancetype)make;\n@end\n"),
        ("oc-impl", "@implementation Foo\n- (void)doIt:(int)a with:(id)b\n{\n    NSArray *arr = @[ @1, @\"s\" ];\n    NSDictionary *d = @{ @\"k\" : @2 };\n"
                    "    [self doIt:a + 1 with:[arr objectAtIndex:0]];\n    void (^blk)(int) = ^(int z) { NSLog(@\"%d\", z); };\n    blk(_x);\n"
                    "    @try { [d count]; } @catch (NSException *e) { } @finally { }\n    @synchronized(self) { _x++; }\n}\n@end\n"),
    ],
    "JAVA": [
        ("java-class", "package a.b;\nimport java.util.List;\nimport java.util.Map;\n\n@Deprecated\npublic class Foo<T extends Bar> extends Base implements Runnable {\n"
                       "    private final int x = 1;\n    static { init(); }\n    @Override\n    public void run() throws Exception {\n        for (String s : list) {\n"
                       "            if (s instanceof String) continue;\n        }\n        synchronized (this) { x >>>= 2; }\n        Runnable r = () -> { return; };\n"
                       "        try { f(); } catch (IOException | Error e) { } finally { }\n        int[] a = new int[] { 1, 2 };\n    }\n}\n"),
    ],
    "CS": [
        ("cs-class", "using System;\nusing System.Collections.Generic;\nnamespace N {\n    [Serializable]\n    public class Foo<T> : Base, IBar where T : class {\n"
                     "        public int X { get; set; }\n        public string S => $\"v {X}\";\n        string p = @\"c:\\dir\";\n        public event EventHandler E;\n"
                     "        void M(ref int a, out int b, params int[] c) {\n            b = a ?? 0;\n            var q = from x in c where x > 1 select x;\n"
                     "            foreach (var i in c) { if (i is int) continue; }\n            using (var r = new R()) { lock (this) { } }\n            Func<int, int> f = y => y * 2;\n"
                     "            int? n = null;\n        }\n    }\n}\n"),
    ],
    "D": [
        ("d-static-if", "static if (is(T == int)) { int a; } else { long a; }\nvoid f() { static if (a) { } }\nstatic assert(1);\n"),
        ("d-mod", "module m;\nimport std.stdio;\nalias int myint;\ntemplate T(U) { U v; }\nclass C : B {\n    this() { x = 1; }\n    ~this() { }\n    invariant() { assert(x); }\n"
                  "    int x;\n}\nvoid f(in int a, out int b, lazy int c)\n{\n    auto s = `raw`;\n    auto r = r\"wy\";\n    /+ nest /+ ed +/ +/\n    foreach (i; 0 .. 3) { b += i; }\n"
                  "    scope(exit) writeln(\"x\");\n    version (X) { } else { }\n    int[] arr = [1, 2];\n    auto t = a !is null ? arr[$ - 1] : cast(int) c;\n    unittest { }\n}\n"),
    ],
    "VALA": [
        ("vala-class", "using GLib;\nnamespace N {\npublic class Foo : Object, Bar {\n    public int x { get; set; default = 1; }\n    public signal void sig(int a);\n"
                       "    private string s = \"\"\"verb\"\"\";\n    public Foo.named(int a) { this.x = a; }\n    public async void run() throws Error {\n        var l = new List<string>();\n"
                       "        foreach (var e in l) { stdout.printf(@\"$e\\n\"); }\n        string? n = null;\n        int y = n ?? \"d\";\n        yield;\n    }\n}\n}\n"),
    ],
    "PAWN": [
        ("pawn-basic", "#include <core>\n#define MAXV 10\nnew g_val = 0\nnative print(const s[])\nforward onTick(a)\nstock add(a, b)\n{\n    new r = a + b\n    if (r > MAXV)\n        r = MAXV\n"
                       "    for (new i = 0; i < r; i++)\n        print(\"x\")\n    return r\n}\npublic onTick(a)\n{\n    g_val += a;\n    switch (a) {\n    case 1: g_val = 0\n    default: g_val++\n    }\n}\n"),
    ],
    "ECMA": [
        ("ecma-basic", "var a = 1;\nfunction f(x, y) {\n    var o = { k: 1, \"s\": [1, 2] };\n    if (x === y) {\n        return function () { return x; };\n    }\n"
                       "    for (var i in o) { delete o[i]; }\n    try { throw new Error(\"e\"); } catch (e) { } finally { }\n    return typeof x !== 'undefined' ? x >>> 1 : void 0;\n}\n"),
    ],
}

LANGS = list(SKEL)


def all_skeletons(langs=None):
    """-> list of (name, lang, bytes)"""
    out = []
    for lang, lst in SKEL.items():
        if langs and lang not in langs:
            continue
        for n, s in lst:
            out.append((n, lang, s.encode()))
    return out
