"""Units that make the language-specific code-modifying options fire (import/using sorting, 'using ()' braces,
Pawn optional semicolons and one-line functions, Objective-C property attribute sorting) and the C constructs the
secondary mod_ options need (Boolean right-hand sides, a return behind a braced case, include lines that differ in
case, extension, delimiter and directory).  Inputs to the systematic option sweeps, not samples."""

UNITS = {
    "C": [
        ("boolassign", "int ba(int a, int b, int c)\n{\n    int x;\n    x = a && b > c;\n    x = a || b && c;\n    while (a && b > c)\n        a--;\n"
                       "    if (a || b == c)\n        a++;\n    return a && b > c;\n}\n"),
        ("case-return", "int cr(int v)\n{\n    switch (v) {\n    case 1: {\n        v++;\n    }\n    return v;\n    case 2: {\n        v--;\n    }\n    break;\n"
                        "    default:\n        break;\n    }\n    return 0;\n}\n"),
        ("includes-mixed", "#include \"b.h\"\n#include <b>\n#include <a.h>\n#include \"A.h\"\n#include \"a.hpp\"\n#include \"sub/a.h\"\n#include <vector>\n"
                           "#include \"a\"\n#include \"a-bc.h\"\n#include <B.h>\nint z;\n"),
        ("includes-groups", "#include <b.h>\n#include \"a.h\"\n\n#include <a.h>\n#include <b.h>\n\n\n\n\n\n#include \"z.h\"\n#include \"y.h\"\nint z;\n"),
        ("c-sql", "void sq(void)\n{\n    EXEC SQL BEGIN DECLARE SECTION;\n    int h;\n    EXEC SQL END DECLARE SECTION;\n    EXEC SQL SELECT a\n             INTO :h\n             FROM t;\n    h++;\n}\n"),
        ("intspell2", "unsigned int a1;\nint unsigned a2;\nlong int a3;\nint long a4;\nshort int a5;\nint short a6;\nsigned int a7;\nint signed a8;\n"
                      "unsigned a9;\nlong b1;\nshort b2;\nsigned b3;\nunsigned long int b4;\nlong unsigned b5;\nint long unsigned int b6;\n"
                      "static unsigned const b7 = 1;\nvoid fi(unsigned, long x, short *p);\n"),
        ("long-blocks", "#ifdef A\nint l1;\nint l2;\nint l3;\n#else\nint l4;\nint l5;\nint l6;\n#endif\nint lf(int v)\n{\n    switch (v) {\n    case 1:\n        v++;\n        break;\n"
                        "    default:\n        break;\n    }\n    return v;\n}\n"),
    ],
    "CPP": [
        # constructs behind options no other unit makes uncrustify consult: nested / anonymous namespaces, class template
        # declarations and specialisations, variable templates, typedef runs, multi-line conditions and for headers, new[] {},
        # directives inside extern "C" / switch / function bodies, #pragma region, doxygen and multi-line comments
        ("cov-cpp", "namespace a { namespace b { int x; } }\nnamespace { int y; }\ntemplate<class T> class TC;\ntemplate<class T> class TD { };\ntemplate<> class TD<int>;\n"
                    "template<class T> T tv = T(1);\ntypedef struct { int a; } ts1;\ntypedef int ti1;\ntypedef int ti2;\n\ntypedef long tl;\nint cf(int a, int b)\n{\n"
                    "    if (a &&\n        b) {\n        a++;\n    }\n    for (a = 0;\n         a < b;\n         a++) {\n    }\n    int *p = new int[] { 1, 2 };\n    return a;\n}\n"
                    "extern \"C\" {\n#if X\nint ec;\n#endif\n}\n#pragma region R\nint rg;\n#pragma endregion\nint sw(int v)\n{\n    switch (v) {\n#if A\n    case 1:\n        break;\n#endif\n"
                    "    default:\n        break;\n    }\n#if B\n    return 1;\n#endif\n}\n/** @param a the a */\nint dx(int a);\n/* one\n * two */\n// one\n// two\nint after;\n"),
        ("cpp-throw", "int th(int a)\n{\n    if (a)\n        throw (a);\n    if (!a)\n        throw a + 1;\n    return (a);\n}\n"),
        ("cpp-long-blocks", "namespace nn {\nclass CC {\npublic:\n    int a;\n    int b;\n    int c;\n};\nint lf2(int v)\n{\n    v++;\n    v--;\n    return v;\n}\n}\n"),
    ],
    "JAVA": [
        ("java-annot", "@A @B class X {\n    @Override\n    public void f() {}\n    @C(1) @D int g;\n    @E\n    @F\n    void h() {}\n}\n"),
        ("java-imports", "package p;\nimport java.util.Map;\nimport java.util.List;\nimport java.io.File;\nimport java.util.ArrayList;\nimport static java.lang.Math.max;\n"
                         "import java.util.list;\n\nclass J {\n    int f(int a, int b) {\n        if (a > b) return (a);\n        else { return b; }\n    }\n"
                         "    void g(int n) {\n        for (int i = 0; i < n; i++) n--;\n        while (n > 0) { n--; }\n        do n++; while (n < 3);\n"
                         "        synchronized (this) { n = 0; }\n        boolean q = n > 1 && n < 3;\n    }\n}\n"),
    ],
    "CS": [
        ("cs-usings", "using System.Text;\nusing System;\nusing System.Collections.Generic;\nusing Alpha = System.IO;\nusing system.text;\n\nnamespace N {\n    class K {\n"
                      "        int F(int a, int b) {\n            if (a > b) return (a);\n            else { return b; }\n        }\n"
                      "        void G(Res r, int n) {\n            using (var x = r.Open()) x.Go();\n            using (var y = r.Open()) { y.Go(); }\n"
                      "            foreach (var i in r.L) n++;\n            lock (this) { n--; }\n            while (n > 0) { n--; }\n            throw (new Exception());\n"
                      "        }\n    }\n}\n"),
    ],
    "D": [
        ("d-imports", "module m;\nimport std.stdio;\nimport std.algorithm;\nimport core.thread;\nimport std.array;\n\nint f(int a, int b) {\n    if (a > b) return (a);\n"
                      "    else { return b; }\n}\nvoid g(int n) {\n    foreach (i; 0 .. n) n--;\n    while (n > 0) { n--; }\n    version (X) n++;\n}\n"),
    ],
    "VALA": [
        ("vala-usings", "using Gtk;\nusing GLib;\nusing Cairo;\nclass V : Object {\n    int f(int a, int b) {\n        if (a > b) return (a);\n        else { return b; }\n    }\n"
                        "    void g(int n) {\n        foreach (var i in l) n++;\n        while (n > 0) { n--; }\n    }\n}\n"),
    ],
    "OC": [
        ("oc-blocks", "@implementation B\n- (void)go\n{\n    [obj doIt:^(int a) {\n        x = a;\n    } with:^{\n        y = 1;\n    }];\n    [obj method:a other:b third:c];\n"
                      "    [obj longMethodNameHere:argumentOne\n              other:argumentTwo];\n    dispatch_async(q, ^{\n        z = 2;\n    });\n}\n@end\n"),
        ("oc-props", "#import \"Zeta.h\"\n#import <Foundation/Foundation.h>\n#import \"Alpha.h\"\n@interface P : NSObject\n"
                     "@property (nonatomic, copy, readonly, nullable, getter=isX, class) NSString *a;\n@property (strong, atomic, readwrite, setter=setQ:, nonnull) id q;\n"
                     "@property (assign) int n;\n@end\n@implementation P\n- (int)f:(int)a b:(int)b {\n    if (a > b) return (a);\n    else { return b; }\n}\n@end\n"),
    ],
    "PAWN": [
        ("pawn-optsemi", "new g = 0\nstock f(a, b)\n{\n    new r = a + b\n    if (r > 3)\n        r = 3\n    else {\n        r--\n    }\n    while (r > 0) r--\n    return r\n}\n"
                         "sq(x) return x * x\npublic h(a)\n    g = a\n"),
    ],
}


def units(lang):
    return [("lang:" + n, s.encode(), {"ctx": "lang"}) for n, s in UNITS.get(lang, [])]


# Units written so that uncrustify consults the spacing options no other universe reaches (each construct names the options it
# is there for).  `python3 -m mc.universe.langunits` prints the sp_ options that still are not read by any unit.
SP_UNITS = {
    "CPP": [
        # sp_cpp_lambda_square_brace, sp_cpp_lambda_argument_list_empty, sp_cpp_lambda_fparen, sp_return_brace, sp_type_brace_init_lst
        ("sp-lambda", "auto l1 = [] {};\nauto l2 = []() {};\nauto l3 = [](int a) { return a; };\nint l4 = [](int a) { return a; } (3);\n"
                      "std::pair<int, int> rb()\n{\n    return { 1, 2 };\n}\nauto v1 = std::vector<int>{ 1, 2 };\nint v2 = int{ 3 };\nT v3 = T{};\n"),
        # sp_before_operator_ptr_star, sp_before_scope_ptr_star, sp_before_global_scope_ptr_star, sp_qualifier_unnamed_ptr_star,
        # sp_between_ptr_ref, sp_after_ptr_star_func, sp_before_ptr_star_func, sp_qualifier_ptr_star_func, *_trailing, sp_after_operator_sym_empty
        ("sp-ptrstar", "struct PS {\n    int *operator+(int);\n    int operator ()();\n    operator int *();\n};\nint *PS::m1()\n{\n    return 0;\n}\nint *::gm1();\n"
                       "void up(const char *, int *&r, const int *const *);\nchar *dup1(const char *s);\nconst char *dup2(void)\n{\n    return 0;\n}\n"
                       "auto tr1() -> int *;\nauto tr2() -> const int *\n{\n    return 0;\n}\n"),
        # sp_after_decltype, sp_decltype_paren, sp_inside_angle_empty, sp_angle_colon, sp_after_angle, sp_angle_paren_empty, sp_before_template_paren
        ("sp-angle", "int da;\ndecltype(da) db;\ntemplate<> struct X<int> {};\ntemplate<class T> struct Y : Z<T> {};\ntemplate<class T> class W<T> : public B {};\n"
                     "Y<int> yi;\nint ya = mk<int>();\nint yb = mk<int>(1);\ntemplate<class T> T mk() { return T(); }\n"),
        # ellipsis family
        ("sp-ellipsis", "void e1(const char *fmt, ...);\nvoid e2(int...);\ntemplate<typename... T> void e3(T... a)\n{\n    e4(a...);\n    int n = sizeof...(T);\n"
                        "    e5(&a...);\n    e6((a)...);\n}\ntemplate<class... A> struct E7 : A... {};\nvoid e8(int *...p);\ntemplate<class... T> void e10(T &...a, T && ... b, T *... c);\nvoid e9()\n{\n    try {\n    } catch (...) {\n    }\n}\n"),
        # sp_special_semi, sp_inside_for_close/open, sp_inside_sparen_close, sp_before_square_asm_block, sp_cpp_before_struct_binding_after_byref,
        # sp_paren_comma, sp_square_fparen, sp_attribute_paren, sp_throw_paren, sp_cond_ternary_short, sp_extern_paren? (D), sp_paren_brace
        ("sp-misc", "void m1(int a, int b) throw(int);\nvoid m2(void) __attribute__((noreturn));\nvoid m3(int a, int b)\n{\n    for (; a < b;)\n        a++;\n    for (;;) {\n    }\n"
                    "    for (int i = 0; i < a; i++) {\n    }\n    if (a) {\n    }\n    while (b) {\n    }\n    asm (\"mov %[x], %[y]\" : [x] \"=r\" (a) : [y] \"r\" (b));\n"
                    "    auto &[s1, s2] = pr;\n    auto [s3, s4] = pr;\n    M(, a);\n    tbl[1](2);\n    a = b ?: 3;\n    if (!a)\n        throw (a);\n    throw std::runtime_error(\"x\");\n"
                    "    pt = (struct pt) { 1, 2 };\n    if (a) ;\n    while (b) ;\n    for (;;) ;\n    switch (a) {\n    case 1 ... 3:\n        break;\n    }\n}\n"),
        # sp_between_new_paren, sp_after_newop_paren, sp_inside_newop_paren(_open/_close), sp_fparen_brace_initializer, sp_fparen_dbrace, sp_func_type_paren, sp_catch_brace
        ("sp-new", "void n1(void *buf)\n{\n    T *a = new (buf) T;\n    T *b = new (int);\n    T *c = new (std::nothrow) T(1);\n    T *d = new T();\n    try {\n        n2();\n    } catch (const E &e) {\n"
                   "    } catch (...) {\n    }\n}\nstruct N3 {\n    N3() : v(1) {}\n    N3(int x) : v{ x } {}\n    int v;\n};\nN3 n4() {{ return N3(); }}\ntypedef void fn_t(int);\ntypedef int (*fp_t)(int);\n"
                   "enum E5 { A5 };\nenum class E6 : char { A6 };\nenum { A7 } e7;\n"),
        # sp_before_emb_cmt, sp_after_emb_cmt, sp_num_*_emb_cmt, sp_num_before_tr_cmt, sp_cmt_cpp_pvs/lint/region, sp_before_pp_stringify
        ("sp-cmt", "int c1 /* emb */ = 1;\nint c2(int a /* in */, int b/* out */);\nint c3; // trailing\nint c4; /* trailing c */\nint c5; //-V123\nint c6; //lint -e123\n"
                   "//region R\nint c7;\n//endregion\n#define STR(x) #x\n#define CAT(a, b) a #b\n#define STR2(x) a = #x\n"),
    ],
    "C": [
        ("sp-c-misc", "struct pt { int x; int y; };\nenum ce { CA, CB };\nenum { CC } ce2;\nvoid cm(struct pt *p, int a)\n{\n    *p = (struct pt) { 1, 2 };\n    for (; a;)\n        a--;\n"
                      "    a = a ?: 2;\n    __asm__ (\"nop\" : [o] \"=r\" (a));\n}\nchar *cdup(const char *s);\nint *cfn(void)\n{\n    return 0;\n}\nvoid cproto(const char *, int * const);\n"
                      "void cva(const char *fmt, ...);\n__attribute__((unused)) static int cu;\ntypedef void cfn_t(int);\nextern int (*cfp)(int);\n"),
    ],
    "OC": [
        # sp_after_ptr_block_caret, sp_before_oc_block_caret, sp_oc_classname_paren, sp_oc_catch_brace, sp_after_oc_at_sel(_parens), sp_inside_oc_at_sel_parens, sp_enum_paren
        ("sp-oc", "typedef NS_ENUM(NSInteger, Kind) { KindA, KindB };\n@interface Foo (Cat)\n- (void)run:(void (^)(int))blk;\n@end\n@implementation Foo (Cat)\n- (void)run:(void (^)(int))blk\n{\n"
                  "    void (^b2)(void) = ^{ };\n    int (^b3)(int) = ^int (int a) { return a; };\n    SEL s = @selector(run:);\n    SEL s2 = @selector (run:);\n"
                  "    @try {\n        [self run:nil];\n    } @catch (NSException *e) {\n    } @finally {\n    }\n    id x = [Foo new] ?: nil;\n}\n@end\n"),
    ],
    "JAVA": [
        # sp_super_paren, sp_this_paren, sp_annotation_paren, sp_after_angle / generics
        ("sp-java", "@SuppressWarnings(\"x\")\nclass SJ extends B {\n    SJ() {\n        this(1);\n    }\n    SJ(int a) {\n        super(a);\n    }\n    @Ann (1) int f;\n"
                    "    void v(String... s) {\n        int x = a > b ? a : b;\n        try {\n        } catch (Exception e) {\n        }\n        List<Integer> l = new ArrayList<Integer>() {{ add(1); }};\n        Runnable r = new Runnable() { public void run() { } };\n    }\n}\n"),
    ],
    "PAWN": [
        # sp_after_tag
        ("sp-pawn", "new Float:x = 1.0\nFloat: pf(Float: a, bool:b)\n{\n    return a\n}\n"),
    ],
    "CS": [
        # sp_getset_brace, sp_*_mdatype_commas, sp_after_tag?, sp_this_paren
        ("sp-cs", "class SC {\n    int[,] m2;\n    int[, ,] m3;\n    public int P { get { return 1; } set { v = value; } }\n    public int Q { get; set; }\n    SC() : this(1) { }\n"
                  "    SC(int a) : base(a) { }\n    void F() {\n        int? n = null;\n        var x = n ?? 0;\n        try { } catch (Exception e) { }\n    }\n}\n"),
    ],
    "D": [
        # sp_version_paren, sp_scope_paren, sp_d_array_colon, sp_range, sp_extern_paren, sp_invariant_paren, sp_after_invariant_paren
        ("sp-d", "extern (C) int cfunc(int a);\nclass DC {\n    invariant() { assert(x); }\n    invariant () { assert(y); }\n    int x;\n}\nvoid df(int[] a)\n{\n    version (X) { }\n    scope (exit) df2();\n"
                 "    foreach (i; 0 .. 3) { }\n    auto s = a[1 .. 2];\n    int[int] aa = [1 : 2, 3 : 4];\n    auto t = cast(int) x;\n}\n"),
    ],
    "VALA": [
        # sp_vala_after_translation
        ("sp-vala", "class SV : Object {\n    void f() {\n        var s = _(\"text\");\n        var t = _ (\"text\");\n        string? n = null;\n    }\n}\n"),
    ],
}


def sp_units(lang):
    return [("sp:" + n, s.encode(), {"ctx": "sp"}) for n, s in SP_UNITS.get(lang, [])]


if __name__ == "__main__":
    from .. import bee, run
    R = bee.reg()
    read = {}
    for lg, lst in SP_UNITS.items():
        for n, s in lst:
            r = run.unc(s.encode(), None, lg, hooks=("reads",))
            if r.rc != 0:
                print("REFUSED", lg, n, r.err[-200:])
            read[n] = set(x for x in (r.reads or ()) if x.startswith("sp_"))
    import sys
    want = sys.argv[1:]
    for w in want:
        print(w, [n for n, s in read.items() if w in s])
