"""Units that make the language-specific code-modifying options fire (import/using sorting, 'using ()' braces,
Pawn optional semicolons and one-line functions, Objective-C property attribute sorting) and the C constructs the
secondary mod_ options need (Boolean right-hand sides, a return behind a braced case, include lines that differ in
case, extension, delimiter and directory).  Inputs to the systematic option sweeps, not samples."""

UNITS = {
    "C": [
        ("boolassign", "int ba(int a, int b, int c)\n{\n    int x;\n    x = a && b > c;\n    x = a || b && c;\n    while (a && b > c)\n        a--;\n"
                       "    if (a || b == c)\n        a++;\n    return a && b > c;\n}\n"),
        ("case-return", "int cr(int v)\n{\n    switch (v) {\n    case 1: {\n        v++;\n    }\n    return v;\n    case 2: {\n        v--;\n    }\n    break;\n"
                        "    default:\n        break;\n    }\n    return 0;\n}\n"),
        ("includes-mixed", "#include \"b.h\"\n#include <b>\n#include <a.h>\n#include \"A.h\"\n#include \"a.hpp\"\n#include \"sub/a.h\"\n#include <vector>\n"
                           "#include \"a\"\n#include \"a-bc.h\"\n#include <B.h>\nint z;\n"),
        ("includes-groups", "#include <b.h>\n#include \"a.h\"\n\n#include <a.h>\n#include <b.h>\n\n\n\n\n\n#include \"z.h\"\n#include \"y.h\"\nint z;\n"),
        ("intspell2", "unsigned int a1;\nint unsigned a2;\nlong int a3;\nint long a4;\nshort int a5;\nint short a6;\nsigned int a7;\nint signed a8;\n"
                      "unsigned a9;\nlong b1;\nshort b2;\nsigned b3;\nunsigned long int b4;\nlong unsigned b5;\nint long unsigned int b6;\n"
                      "static unsigned const b7 = 1;\nvoid fi(unsigned, long x, short *p);\n"),
        ("long-blocks", "#ifdef A\nint l1;\nint l2;\nint l3;\n#else\nint l4;\nint l5;\nint l6;\n#endif\nint lf(int v)\n{\n    switch (v) {\n    case 1:\n        v++;\n        break;\n"
                        "    default:\n        break;\n    }\n    return v;\n}\n"),
    ],
    "CPP": [
        ("cpp-throw", "int th(int a)\n{\n    if (a)\n        throw (a);\n    if (!a)\n        throw a + 1;\n    return (a);\n}\n"),
        ("cpp-long-blocks", "namespace nn {\nclass CC {\npublic:\n    int a;\n    int b;\n    int c;\n};\nint lf2(int v)\n{\n    v++;\n    v--;\n    return v;\n}\n}\n"),
    ],
    "JAVA": [
        ("java-imports", "package p;\nimport java.util.Map;\nimport java.util.List;\nimport java.io.File;\nimport java.util.ArrayList;\nimport static java.lang.Math.max;\n"
                         "import java.util.list;\n\nclass J {\n    int f(int a, int b) {\n        if (a > b) return (a);\n        else { return b; }\n    }\n"
                         "    void g(int n) {\n        for (int i = 0; i < n; i++) n--;\n        while (n > 0) { n--; }\n        do n++; while (n < 3);\n"
                         "        synchronized (this) { n = 0; }\n        boolean q = n > 1 && n < 3;\n    }\n}\n"),
    ],
    "CS": [
        ("cs-usings", "using System.Text;\nusing System;\nusing System.Collections.Generic;\nusing Alpha = System.IO;\nusing system.text;\n\nnamespace N {\n    class K {\n"
                      "        int F(int a, int b) {\n            if (a > b) return (a);\n            else { return b; }\n        }\n"
                      "        void G(Res r, int n) {\n            using (var x = r.Open()) x.Go();\n            using (var y = r.Open()) { y.Go(); }\n"
                      "            foreach (var i in r.L) n++;\n            lock (this) { n--; }\n            while (n > 0) { n--; }\n            throw (new Exception());\n"
                      "        }\n    }\n}\n"),
    ],
    "D": [
        ("d-imports", "module m;\nimport std.stdio;\nimport std.algorithm;\nimport core.thread;\nimport std.array;\n\nint f(int a, int b) {\n    if (a > b) return (a);\n"
                      "    else { return b; }\n}\nvoid g(int n) {\n    foreach (i; 0 .. n) n--;\n    while (n > 0) { n--; }\n    version (X) n++;\n}\n"),
    ],
    "VALA": [
        ("vala-usings", "using Gtk;\nusing GLib;\nusing Cairo;\nclass V : Object {\n    int f(int a, int b) {\n        if (a > b) return (a);\n        else { return b; }\n    }\n"
                        "    void g(int n) {\n        foreach (var i in l) n++;\n        while (n > 0) { n--; }\n    }\n}\n"),
    ],
    "OC": [
        ("oc-props", "#import \"Zeta.h\"\n#import <Foundation/Foundation.h>\n#import \"Alpha.h\"\n@interface P : NSObject\n"
                     "@property (nonatomic, copy, readonly, nullable, getter=isX, class) NSString *a;\n@property (strong, atomic, readwrite, setter=setQ:, nonnull) id q;\n"
                     "@property (assign) int n;\n@end\n@implementation P\n- (int)f:(int)a b:(int)b {\n    if (a > b) return (a);\n    else { return b; }\n}\n@end\n"),
    ],
    "PAWN": [
        ("pawn-optsemi", "new g = 0\nstock f(a, b)\n{\n    new r = a + b\n    if (r > 3)\n        r = 3\n    else {\n        r--\n    }\n    while (r > 0) r--\n    return r\n}\n"
                         "sq(x) return x * x\npublic h(a)\n    g = a\n"),
    ],
}


def units(lang):
    return [("lang:" + n, s.encode(), {"ctx": "lang"}) for n, s in UNITS.get(lang, [])]
