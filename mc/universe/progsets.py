"""Program sets shared by C01/C04/C05/C17...: packs of generated functions plus declaration / preprocessor units."""
from . import cgen


def stmt_funcs(depth, width=2, styles=("kr", "one")):
    """-> list of (shape_text, style, function source text) ; function names are assigned when packing"""
    out = []
    for s in cgen.stmts(depth, width):
        shape = cgen.render_one(s)
        for style in styles:
            body = "\n".join(cgen.render(s, style, 1))
            out.append((shape, style, body))
        if depth >= 1 and s[0] != "decl":
            # the statement followed by another one (a removed 'return;' or a swallowed statement shows)
            body = "\n".join(cgen.render(s, "kr", 1) + ["    c = 9;"])
            out.append((shape + " c = 9;", "kr+tail", body))
    return out


def pack_funcs(funcs, per, prelude=cgen.PRELUDE):
    """-> list of (prog_id, src bytes, meta{funcs:[(name, shape, style)]})"""
    progs = []
    for n in range(0, len(funcs), per):
        chunk = funcs[n:n + per]
        src = prelude
        meta = []
        for i, (shape, style, body) in enumerate(chunk):
            name = "t%d" % (n + i)
            src += "void %s(void)\n{\n%s\n}\n" % (name, body)
            meta.append((name, shape, style))
        progs.append(("stmts:%d" % (n // per), src.encode(), {"funcs": meta, "ctx": "stmt"}))
    return progs


def single_func_program(name, body, prelude=cgen.PRELUDE):
    return (prelude + "void %s(void)\n{\n%s\n}\n" % (name, body)).encode()


def units(lang="C"):
    out = []
    for n, src in cgen.decl_units(lang):
        out.append(("decl:" + n, src, {"ctx": "decl"}))
    for n, src in cgen.pp_units():
        out.append(("pp:" + n, src, {"ctx": "pp"}))
    return out
