"""Oracles shared by the BEE checks: token-stream comparison by the independent lexer and by
uncrustify's own raw tokeniser (UNC_VERIF_TOKENS dump)."""
from .lex import cfamily

INDEP_LANGS = {"C": "C", "CPP": "CPP", "OC": "OC", "OC+": "OC+", "JAVA": "JAVA", "CS": "CS", "D": "D", "VALA": "VALA"}
SKIP_TYPES = {"NEWLINE", "NL_CONT", "COMMENT", "COMMENT_CPP", "COMMENT_MULTI", "COMMENT_EMBED",
              "COMMENT_START", "COMMENT_END", "COMMENT_WHOLE", "COMMENT_ENDIF", "WHITESPACE", "JUNK"}
FREE_TEXT = {"PREPROC_BODY", "IGNORED"}


def parse_dump(data, stage=None):
    """-> list of dict rows of the first (or named) stage in a chunk dump."""
    rows = []
    cur = None
    for ln in (data or b"").decode("latin-1").split("\n"):
        if ln.startswith("=== "):
            if cur is not None and stage is None:
                break
            cur = ln[4:]
            continue
        f = ln.split("\t")
        if len(f) < 12 or (stage is not None and cur != stage):
            continue
        rows.append({"type": f[0], "parent": f[1], "line": int(f[2]), "col": int(f[3]), "col_end": int(f[4]),
                     "column": int(f[5]), "level": int(f[6]), "brace_level": int(f[7]), "pp_level": int(f[8]),
                     "nl": int(f[9]), "flags": int(f[10], 16),
                     "text": b"" if f[11] == "-" else bytes.fromhex(f[11])})
    return rows


def self_tokens(dump):
    """Normalised non-comment token sequence from a raw tokeniser dump, with directive markers."""
    out = []
    in_pp = False
    for r in parse_dump(dump):
        t = r["type"]
        pp = bool(r["flags"] & 1)
        if t == "PREPROC":
            if in_pp:
                out.append(("DIR)", ""))
            out.append(("DIR(", ""))
            in_pp = True
        elif in_pp and not pp and t != "NL_CONT":
            out.append(("DIR)", ""))
            in_pp = False
        if t in SKIP_TYPES or t.startswith("COMMENT"):
            continue
        txt = r["text"]
        if t in FREE_TEXT:
            txt = bytes(c for c in txt if c not in b" \t\r\n")
        if not txt and t not in ("VBRACE_OPEN", "VBRACE_CLOSE"):
            continue
        if txt and not txt.replace(b"\xe2\x90\xa4", b"").strip(b"\\\r\n \t"):
            continue        # a line splice (backslash-newline) however it was classified: not a token
        # MACRO_FUNC is kept (a '(' attached to / detached from the macro name changes the meaning of a #define); whether a plain
        # macro name is classified MACRO or WORD depends on line splices in front of it and says nothing about the token stream
        kind = t if t == "MACRO_FUNC" else ""
        out.append((kind, txt))
    if in_pp:
        out.append(("DIR)", ""))
    return out


def self_comments(dump):
    return [r["text"] for r in parse_dump(dump) if r["type"].startswith("COMMENT")]


def indep_tokens(data, lang):
    ln = INDEP_LANGS.get(lang)
    if ln is None:
        return None
    lx = cfamily.lex(data, ln)
    return lx


def first_diff(a, b):
    """index of first difference of two sequences, with a little context"""
    n = min(len(a), len(b))
    i = 0
    while i < n and a[i] == b[i]:
        i += 1
    if i == n and len(a) == len(b):
        return None
    return i


def describe_diff(a, b, i):
    def txt(x):
        t = x[1]
        return t.decode("latin-1") if isinstance(t, bytes) else t
    A = [txt(x) for x in a[max(0, i - 1):i + 2]]
    B = [txt(x) for x in b[max(0, i - 1):i + 2]]
    return " ".join(A), " ".join(B)
