"""Helper used BY HAND after triage (never by a check): append 'finding:' lines for the witnesses currently under
replays/<PROP>-*/ to known_findings.txt, matching on the given witness keys.
usage: python3 mc/kf_add.py C05 "what fails text with {placeholders}" key1 key2 ..."""
import glob, json, sys
pid, what, keys = sys.argv[1], sys.argv[2], sys.argv[3:]
seen = set(l for l in open("/verif/known_findings.txt"))
n = 0
with open("/verif/known_findings.txt", "a") as f:
    for d in sorted(glob.glob("/verif/replays/%s-*" % pid)):
        w = json.load(open(d + "/witness.json"))["witness"]
        m = {k: str(w[k]) for k in keys if k in w}
        line = "finding: property=%s match=%s :: %s\n" % (pid, json.dumps(m, sort_keys=True, separators=(",", ":")), what.format(**{k: w.get(k, "") for k in w}))
        if line not in seen:
            seen.add(line); f.write(line); n += 1
print("added", n, "- CHECK that replays/ held only violations of the UNCHANGED tree (clear replays/<P>-* before the run)")
