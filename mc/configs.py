"""Configuration universe: base profiles, value alphabets, k-deviation enumeration, read-set pruning."""
import glob, os, re, subprocess

from . import build, registry

VERIF = os.path.dirname(os.path.dirname(os.path.abspath(__file__)))
PROFDIR = os.path.join(VERIF, "profiles")

CURATE_FROM = ["ben", "ben2", "linux", "linux-indent", "gnu-indent", "kr-indent", "freebsd", "sun", "msvc",
               "mono", "klaus", "d", "objc", "xsupplicant", "amxmodx"]


def parse_cfg(text):
    """name -> value for plain 'name = value' lines (ignores directives)."""
    out = {}
    for ln in text.splitlines():
        ln = ln.split("#", 1)[0].strip() if not re.search(r'"[^"]*#', ln) else ln.strip()
        m = re.match(r"^(\w+)\s*=\s*(.*?)\s*$", ln)
        if m:
            v = m.group(2)
            if len(v) >= 2 and v[0] == '"' and v[-1] == '"':
                v = v[1:-1]
            out[m.group(1)] = v
    return out


def curate():
    """(Re)generate /verif/profiles/*.cfg from /repo/etc/*.cfg: the binary normalises each shipped style
    (--update-config), then comment-rewriting / header-insertion / lexer-altering / debug options are dropped
    and only non-default settings are kept."""
    b = build.binary("hooks")
    reg = registry.options(b)
    os.makedirs(PROFDIR, exist_ok=True)
    for name in CURATE_FROM:
        src = os.path.join(build.REPO, "etc", name + ".cfg")
        r = subprocess.run([b, "-c", src, "--update-config"], stdout=subprocess.PIPE, stderr=subprocess.PIPE, text=True,
                           errors="replace", cwd=os.path.join(build.REPO, "etc"))
        vals = parse_cfg(r.stdout)
        keep = []
        for k, v in vals.items():
            o = reg.get(k)
            if o is None or v == o.default:
                continue
            if k.startswith("cmt_") or k.startswith("sp_cmt_cpp") or registry.lexer_or_external(k) or k.startswith("warn_level"):
                continue
            if o.type == "string":
                continue
            keep.append("%s = %s" % (k, v))
        with open(os.path.join(PROFDIR, name + ".cfg"), "w") as f:
            f.write("# curated from etc/%s.cfg by mc/configs.py curate(): non-default settings only;\n"
                    "# comment-rewriting, header-insertion, lexer-altering, string and debug options dropped\n" % name)
            f.write("\n".join(keep) + "\n")


def profiles(which=None):
    """name -> dict of settings.  'defaults' is the empty dict."""
    out = {"defaults": {}}
    for p in sorted(glob.glob(os.path.join(PROFDIR, "*.cfg"))):
        n = os.path.basename(p)[:-4]
        if which is None or n in which:
            out[n] = parse_cfg(open(p).read())
    return out


def is_modifying(name):
    return name.startswith("mod_") or name.startswith("cmt_") or name.startswith("sp_cmt_cpp") or registry.lexer_or_external(name)


def ws(profile):
    """Projection of a profile onto whitespace-only options (mod_/cmt_/lexer options back to default)."""
    return {k: v for k, v in profile.items() if not is_modifying(k)}


def text(settings, devs=()):
    d = dict(settings)
    for k, v in devs:
        d[k] = v
    return "".join("%s = %s\n" % (k, ('"%s"' % v if (" " in str(v) or v == "") else v)) for k, v in d.items())


def sp_profile(reg, value):
    """Synthetic spacing profile: every iarf sp_* option at `value`."""
    return {o.name: value for o in reg.values() if o.type == "iarf" and o.name.startswith("sp_") and not is_modifying(o.name)}


def singles(reg, base, readset, pred=None, allow_lexer=False):
    """All 1-deviations (name, value) from `base` over options in `readset` (None = all options),
    restricted by pred(name).  Excludes lexer-altering/external/debug options always."""
    out = []
    for o in reg.values():
        if readset is not None and o.name not in readset:
            continue
        if o.name.startswith("warn_level") or o.type == "string" or o.name.startswith("debug_"):
            continue
        if registry.lexer_or_external(o.name) and not allow_lexer:
            continue
        if pred is not None and not pred(o.name):
            continue
        cur = base.get(o.name, o.default)
        for v in registry.alphabet(o):
            if v != cur:
                out.append((o.name, v))
    return out


if __name__ == "__main__":
    curate()
    for n, p in profiles().items():
        print(n, len(p))
