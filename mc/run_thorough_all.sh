#!/bin/bash
# Development aid: run every thorough tier once, in sequence, logging one summary line per check (used under `vp run`).
cd "$(dirname "$0")/.."
[ -n "$VP_RUN_REPO" ] && export VERIF_REPO=$VP_RUN_REPO
python3 mc/build.py hooks asan && gcc -O2 -w -o build/sysfi mc/sysfi.c
for c in ${@:-C01 C02 C03 C04 C05 C06 C07 C08 C09 C10 C11 C12 C13 C14 C15 C16 C17 C18 C19 C20}; do
  ./check $c --tier thorough > thorough-$c.log 2>&1; rc=$?
  echo "$c rc=$rc $(grep -v KNOWN thorough-$c.log | tail -1 | cut -c1-200)" | tee -a thorough-summary.log
done
echo ALLDONE | tee -a thorough-summary.log
